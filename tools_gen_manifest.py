#!/usr/bin/env python3
"""Regenerates MANIFEST.json from checks_config.py + manifest_meta.py (kept valid at all times)."""
import json, os, sys
sys.path.insert(0, os.path.dirname(os.path.abspath(__file__)))
from checks_config import CHECKS
from manifest_meta import META, NOT_APPLICABLE, NOTES

checks = []
for pid in sorted(CHECKS):
    m = META[pid]
    checks.append(dict(
        property_id=pid,
        quick_cmd="./check %s quick" % pid,
        thorough_cmd="./check %s thorough" % pid,
        evidence_file="/verif/evidence/%s.json" % pid,
        replay_cmd_template="./check --replay {path}",
        engine="harness",
        level_claimed=dict(category=CHECKS[pid]["level"], text=m["text"], design_ref=m["design_ref"]),
        level_note=m["note"],
        technique=m["technique"],
    ))
man = dict(
    version=1,
    setup_cmd="./check --setup",
    hooks=dict(guard="verif", enable="none needed: checks inject their probe files at build time with `go test -overlay` (no source hooks in /repo)",
               baseline_off_cmd="cd /repo && go build ./... ; go test -vet=off -count=1 ./data/... ./io/json/... ./util/...",
               source_commits=[], add_only=True),
    engines=[dict(name="harness", path="/verif/harness", serves_properties=sorted(CHECKS),
                  kind_free_text="Go test packages driven by pgregory.net/rapid v1.3.0 (generated cases, shrinking) through /verif/check; evidence merged from per-shard counters")],
    checks=checks,
    notes=NOTES,
    not_applicable=NOT_APPLICABLE,
)
json.dump(man, open(os.path.join(os.path.dirname(os.path.abspath(__file__)), "MANIFEST.json"), "w"), indent=1)
print("MANIFEST.json: %d checks, %d not_applicable" % (len(checks), len(NOT_APPLICABLE)))
