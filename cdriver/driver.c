/* ABI driver for the C03 check: loads libopenwater.so, reads cases from stdin, places every
 * caller buffer flush against an inaccessible page (at its end or at its start), surrounds the
 * rest of the mapping with canary bytes, calls RunSingleModel through the C ABI and writes the
 * buffers back.  A wild access faults (the Go side sees the pipe close); a write into the slack
 * of the mapping is reported through the status word. */
#define _GNU_SOURCE
#include <dlfcn.h>
#include <stdint.h>
#include <stdio.h>
#include <stdlib.h>
#include <string.h>
#include <sys/mman.h>
#include <unistd.h>

typedef void (*run_fn)(char *, double *, int, int, int, double *, int, int, double *, int, int, double *, int, int, int, unsigned char);

#define PAGE 4096
#define CANARY 0xA5

typedef struct { unsigned char *map; size_t maplen; double *buf; size_t n; } guarded;

static int read_all(void *p, size_t n) { size_t got = 0; while (got < n) { ssize_t r = read(0, (char *)p + got, n - got); if (r <= 0) return -1; got += (size_t)r; } return 0; }
static int out_fd = 1;
static int write_all(const void *p, size_t n) { size_t put = 0; while (put < n) { ssize_t r = write(out_fd, (const char *)p + put, n - put); if (r <= 0) return -1; put += (size_t)r; } return 0; }

static guarded place(size_t n, int at_start) {
  guarded g; size_t bytes = n * sizeof(double); size_t pages = (bytes + PAGE - 1) / PAGE; if (pages == 0) pages = 1;
  g.maplen = (pages + 2) * PAGE; g.n = n;
  g.map = mmap(NULL, g.maplen, PROT_READ | PROT_WRITE, MAP_PRIVATE | MAP_ANONYMOUS, -1, 0);
  if (g.map == MAP_FAILED) { perror("mmap"); exit(3); }
  memset(g.map, CANARY, g.maplen);
  mprotect(g.map, PAGE, PROT_NONE); mprotect(g.map + (pages + 1) * PAGE, PAGE, PROT_NONE);
  if (at_start) g.buf = (double *)(g.map + PAGE); else g.buf = (double *)(g.map + (pages + 1) * PAGE - bytes);
  return g;
}
static int canary_ok(guarded *g) {
  size_t pages = g->maplen / PAGE - 2; unsigned char *lo = g->map + PAGE, *hi = g->map + (pages + 1) * PAGE;
  for (unsigned char *p = lo; p < (unsigned char *)g->buf; p++) if (*p != CANARY) return 0;
  for (unsigned char *p = (unsigned char *)(g->buf + g->n); p < hi; p++) if (*p != CANARY) return 0;
  return 1;
}
static void release(guarded *g) { munmap(g->map, g->maplen); }

int main(int argc, char **argv) {
  if (argc < 2) { fprintf(stderr, "usage: driver libopenwater.so\n"); return 2; }
  /* the library may print diagnostics on stdout: keep the protocol on a private descriptor */
  out_fd = dup(1); dup2(2, 1);
  void *h = dlopen(argv[1], RTLD_NOW);
  if (!h) { fprintf(stderr, "dlopen: %s\n", dlerror()); return 2; }
  run_fn run = (run_fn)dlsym(h, "RunSingleModel");
  if (!run) { fprintf(stderr, "dlsym: %s\n", dlerror()); return 2; }
  for (;;) {
    uint32_t magic, namelen; int32_t a[13];
    if (read_all(&magic, 4)) return 0;
    if (magic != 0x4F574D31) return 4;
    if (read_all(&namelen, 4)) return 4;
    char *name = calloc(namelen + 1, 1); if (read_all(name, namelen)) return 4;
    if (read_all(a, sizeof a)) return 4;
    int nis = a[0], ni = a[1], nt = a[2], np = a[3], nps = a[4], nc = a[5], ns = a[6], noc = a[7], no = a[8], not_ = a[9], init = a[10], snull = a[11], at_start = a[12];
    guarded gi = place((size_t)nis * ni * nt, at_start), gp = place((size_t)np * nps, at_start), gs = place((size_t)nc * ns, at_start), go = place((size_t)noc * no * not_, at_start);
    if (read_all(gi.buf, gi.n * 8) || read_all(gp.buf, gp.n * 8)) return 4;
    if (!snull && read_all(gs.buf, gs.n * 8)) return 4;
    if (read_all(go.buf, go.n * 8)) return 4;
    run(name, gi.buf, nis, ni, nt, gp.buf, np, nps, snull ? NULL : gs.buf, nc, ns, go.buf, noc, no, not_, (unsigned char)init);
    uint32_t status = 0;
    if (!canary_ok(&gi)) status |= 1; if (!canary_ok(&gp)) status |= 2; if (!canary_ok(&gs)) status |= 4; if (!canary_ok(&go)) status |= 8;
    if (write_all(&status, 4) || write_all(gi.buf, gi.n * 8) || write_all(gp.buf, gp.n * 8) || write_all(gs.buf, gs.n * 8) || write_all(go.buf, go.n * 8)) return 5;
    release(&gi); release(&gp); release(&gs); release(&go); free(name);
  }
}
