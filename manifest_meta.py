ALL = ["C%02d" % i for i in range(1, 21)]

META = {
 "C19": dict(
  text="Exhaustive enumeration of all 146097 start dates of a Gregorian 400-year cycle (3 steps each) and 12 whole-cycle runs against Go's time package, plus generated windows in years 1..9999. The calendar is periodic with period 400 years, so the enumeration covers every day-to-day transition the generator can make; generated search covers run lengths and years outside the cycle.",
  design_ref="DESIGN.md section 4, C19",
  note="Trusts Go's time.Date/AddDate/YearDay as the calendar oracle and the catalogue path (ApplyParameters/Run) to deliver parameters to the kernel (that path is C04's subject).",
  technique="exhaustive enumeration of a finite domain + property-based testing (rapid) against a reference calendar"),
}

META["C01"] = dict(
  text="Model-based stateful property test: generated slice/read/write histories on all 8 element types and both back-ends are compared, after every operation, with an extensional model of views (explicit offset lists) on three observables: whole raw storage (exact write footprint), every live view element by element (visibility through overlapping views), and the caller's index vectors. Exploration: evidence for the generated histories, not a proof.",
  design_ref="DESIGN.md section 4, C01",
  note="Trusted: the ~100-line extensional model (viewmodel) and the raw-storage readers in harness/arr. Array extents are bounded (<= 9 per dimension, <= 4 dimensions, depth <= 4).",
  technique="model-based property testing (rapid, generated operation histories vs extensional reference model)")
META["C02"] = dict(
  text="Generated views with forced contiguity classes; every bulk operation and the contiguous fast paths are compared with the row-major element-by-element definition computed on the extensional model, including both directions of the Contiguous()/ReshapeFast/Reshape error conditions and aliasing-vs-copy of reshape and unroll results; integer helpers against arithmetic definitions. Exploration.",
  design_ref="DESIGN.md section 4, C02",
  note="Trusted: the extensional model. Aliasing of Unroll is asserted for Go-backed views only (the property states it for those).",
  technique="property-based testing (rapid) against an extensional reference model; metamorphic fast-path vs general-path agreement")

META["C03"] = dict(
  text="Differential property test: the C01/C02 generated cases run on both back-ends with every observation compared, the C buffer guarded by canaries and inaccessible pages so that an out-of-buffer access faults or is seen; and (b) RunSingleModel through the exported entry point against the Go API. Exploration.",
  design_ref="DESIGN.md section 4, C03",
  note="Trusted: the mmap/mprotect guard set-up; writes through slices returned by Unroll are excluded from the lock-step (C views unroll to copies by design).",
  technique="differential property-based testing (rapid) Go back-end vs C back-end, with guard pages")
META["C04"] = dict(
  text="Differential property test over the whole catalogue: the generated vectorised Run is compared bit-for-bit with independent single-cell runs for every combination of cell / parameter-set / input-block counts, plus sentinel checks on everything Run must not touch. Exploration over generated configurations; all 41 models are drawn (thorough iterates them round-robin).",
  design_ref="DESIGN.md section 4, C04",
  note="The single-cell reference goes through the same generated wrapper with N=1 (where modulo broadcasting and cell offsets are vacuous); kernels are trusted only to be deterministic (C14 checks that).",
  technique="differential property-based testing (rapid): vectorised run vs independent single-cell runs")

META["C06"] = dict(
  text="Metamorphic property test (split run vs whole run) over all 17 stateful models with generated parameters, series, initial states and split points. Two recorded findings (Sacramento unit-hydrograph buffer, dissolved-nutrient previous volume) are excluded by narrow predicates; everything they do not explain is still asserted. Exploration.",
  design_ref="DESIGN.md section 4, C06",
  note="Round-off tolerance 1e-9 relative (+1e-12 of the series magnitude); StorageRouting tolerance derived from its massBalanceLimit. Parameter domains are simref.DrawCell.",
  technique="metamorphic property-based testing (rapid): segmented run with carried states vs uninterrupted run")
META["C14"] = dict(
  text="Metamorphic property test over the whole catalogue: repeat-run, fresh-object and after-other-runs results must be bit-identical, and outputs up to t must not depend on inputs after t (replacement and truncation). Exploration.",
  design_ref="DESIGN.md section 4, C14",
  note="Runs are single-cell through the catalogue; hidden state is only observable through outputs/final states, which is what the property speaks about.",
  technique="metamorphic property-based testing (rapid): repeat / fresh object / perturbed-future relations")

META["C10"] = dict(
  text="Invariant-over-the-history property test for the five rainfall-runoff models: non-negativity, store bounds, component sums and cumulative water budgets over generated parameter vectors and long generated series. Exploration.",
  design_ref="DESIGN.md section 4, C10",
  note="Stores between steps are observed through final states of prefix runs at drawn cut points (and the per-step store output where the model reports one). Parameter domain: simref.DrawCell.",
  technique="property-based testing (rapid) with conservation / bound invariants over generated series")
META["C15"] = dict(
  text="Differential property test of GR4J against an independent implementation of the published equations over the whole documented parameter range, every unit-hydrograph length class, and carried initial stores. Exploration.",
  design_ref="DESIGN.md section 4, C15",
  note="Trusted: simref/gr4jref.go (about 100 lines written from the paper, sharing no code with the repository).",
  technique="differential property-based testing (rapid) against an independent reference implementation")

META["C11"] = dict(
  text="Invariant property tests of the three routing models over generated parameters and series: per-step water balance, non-negativity and the storage-discharge relation for StorageRouting on every exit path the generator reaches, volume conservation and steady-state for Muskingum including lateral inflow, exact delay semantics for Lag for every lag/length combination. Two recorded findings about the storage-discharge relation are excluded by narrow predicates. Exploration.",
  design_ref="DESIGN.md section 4, C11",
  note="Tolerances derive from the model's own massBalanceLimit (1e-3 m^3). The balance is asserted everywhere, also inside the findings.",
  technique="property-based testing (rapid) with conservation invariants and an independent bisection of the storage relation")

META["C12"] = dict(
  text="Conservation property test for the eight constituent transport / trapping models: the mass budget is closed per step (models are stepped with carried states) and over the run, on every branch the generator forces (lumped vs full fine-sediment branch, flood-plain deposition, deposition / remobilisation / neither, trapping fractions, minimum-volume flush, empty storage). Exploration.",
  design_ref="DESIGN.md section 4, C12",
  note="Per-step stored mass is observed by running one timestep per call with carried states (C06 checks that this equals the uninterrupted run).",
  technique="property-based testing (rapid) with per-step and whole-run mass-budget invariants")

META["C13"] = dict(
  text="Invariant property test of the reservoir model over generated tables, release curves and forcing: per-step volume balance against the reported outflow / rainfall / evaporation volumes, non-negativity, table consistency of the final level and area, and release-rule bounds over the volumes traversed, with spill allowed only at the top of the table. Exploration.",
  design_ref="DESIGN.md section 4, C13",
  note="The release bound carries the integrator's own acceptance slack (1e-4 m^3/s, 1e-5 relative, 60 s forced acceptance x steepest curve slope).",
  technique="property-based testing (rapid) with water-balance and release-rule invariants")
META["C16"] = dict(
  text="Closed-form / identity property test over about twenty small models sharing unit and fraction conventions; every model's outputs are compared with the formula it names or with the algebraic identities of the property, plus a linearity relation for the concentration-based generators. Exploration.",
  design_ref="DESIGN.md section 4, C16",
  note="Reference formulas are written from the property text and the unit factors it documents (mg/L -> kg/m3 = 1e-3, mm -> m = 1e-3, percent = 0.01).",
  technique="property-based testing (rapid) against closed-form references and metamorphic linearity")
META["C18"] = dict(
  text="Contract property tests of FindRoot (evaluation points recorded by a wrapper; bracket, value and convergence claims for monotone functions with a known Lipschitz bound; containment for non-monotone ones) and of Piecewise (error exactly outside the table or at NaN, knot values, interpolant). Exploration.",
  design_ref="DESIGN.md section 4, C18",
  note="The convergence claim needs the tolerance to be resolvable in floating point (tol > 64*L*ulp(x)); the check states and enforces that precondition.",
  technique="property-based testing (rapid) with an evaluation-point recorder and analytic convergence bound")
META["C20"] = dict(
  text="Ordering / monotonicity property test of the derived climate variables over the meteorological range, with generators concentrated at freezing, at integer temperatures and at the humidity extremes, comparing pairs of points (metamorphic in T and RH). Exploration.",
  design_ref="DESIGN.md section 4, C20",
  note="Strict monotonicity is asserted for pairs at least 1e-6 C apart; closer pairs may round to the same value and must only not decrease.",
  technique="property-based testing (rapid) with pairwise (metamorphic) ordering relations")

META["C17"] = dict(
  text="Differential and robustness property test of the JSON runner: generated structured requests compared with direct runs (in-process for both encodings, and through the real ow-single binary where defaults apply), generated hostile requests and byte strings judged on exit status and on 'exactly one JSON document', and the JSON-safe array conversion against the extensional view model. One recorded finding (kernel panic in a cell goroutine) is excluded by its stderr signature. Exploration.",
  design_ref="DESIGN.md section 4, C17",
  note="ow-single is built from the working tree through -overlay into the harness module (no change to /repo).",
  technique="differential property-based testing (rapid) + grammar-based fuzzing of a child process")

META["C09"] = dict(
  text="Translation validation of the finite set of generated files: each is regenerated from the current templates, directives and spec blocks in a scratch copy and compared byte-for-byte (complete enumeration, exhaustive: true), the catalogue and Description() are compared with an independent YAML reading of every spec block, and generated search varies the generator invocation (subset and order of inputs) to show the output is a function of the spec alone.",
  design_ref="DESIGN.md section 4, C09",
  note="Trusted: rsync/diff of files, gopkg.in/yaml.v2 as the independent spec reader, genny at the pinned version from the module cache.",
  technique="exhaustive regeneration and byte comparison (translation validation) + property-based testing (rapid) of generator invocation invariance")

META["C08"] = dict(
  text="Model-based stateful property test of the HDF5 layer over a pure-Go stand-in for libhdf5: generated Create/Write/WriteSlice/Load histories against a map model with both the raw dataset bytes and the API result compared after every step, selection arithmetic enumerated exhaustively for small extents, a lock-state probe at every library entry, and concurrent callers under the race detector (thorough). One recorded finding (Go int/uint width) is excluded for values only. Exploration; the stand-in is the trusted base.",
  design_ref="DESIGN.md sections 2.3 and 4, C08",
  note="Trusted base: /verif/fakehdf5 (about 500 lines, selection logic self-checked against nested loops in the same run). Not covered: the real libhdf5 ABI.",
  technique="model-based property testing (rapid) over an HDF5 stand-in, exhaustive enumeration of selection helpers, lock-state probe, race detector")

META["C03"]["text"] = "Differential property tests: (a) the C01/C02 generated cases run on both back-ends with every observation compared, the C buffer guarded by canaries and inaccessible pages so that an out-of-buffer access faults or is seen; (b) generated RunSingleModel calls, in-process with C argument types and through the real C ABI of a freshly built libopenwater.so driven by a C program that owns guard-paged buffers, compared bit-for-bit with the Go API run. Exploration."
META["C03"]["note"] = "Trusted: the mmap/mprotect guard set-up (Go side and /verif/cdriver/driver.c); writes through slices returned by Unroll are excluded from the lock-step (C views unroll to copies by design)."
META["C03"]["technique"] = "differential property-based testing (rapid): Go vs C back-end in lock-step, C ABI vs Go API, with guard pages and canaries"
META["C05"] = dict(
  text="Monitored execution of generated cases under the Go race detector: the goroutine-per-cell Run of every catalogued model with many cells, and the goroutine-per-model generations plus asynchronous writer of ow-sim over the HDF5 stand-in, with GOMAXPROCS variation, repetition and injected delays, each repetition compared bit-for-bit with the sequential reference. Exploration of schedules, not enumeration.",
  design_ref="DESIGN.md section 4, C05 and section 6",
  note="A race report halts the test binary; the case being run is recovered from the write-ahead file. The race detector sees only the executions that happened.",
  technique="property-based testing (rapid) under the Go race detector with schedule perturbation (GOMAXPROCS, injected delays) and a sequential differential oracle")
META["C07"] = dict(
  text="Differential property test of the real run_simulation (sources mapped in by -overlay, run in-process over the HDF5 stand-in) against an independent sequential interpreter on generated model graphs, output selections and file layouts, bit-for-bit on every row of every written dataset, plus an exactly-once / right-offset audit of the writer from the stand-in's call log, with delays injected around the writer hand-off. Exploration.",
  design_ref="DESIGN.md section 4, C07",
  note="Trusted base: the HDF5 stand-in and the single-cell catalogue path (C04). Not covered: the -outputs split-writer sub-process and the protobuf stream.",
  technique="differential property-based testing (rapid): ow-sim vs sequential reference interpreter, with call-log audit and delay injection")

import os, sys
sys.path.insert(0, os.path.dirname(os.path.abspath(__file__)))
from checks_config import CHECKS
NOT_APPLICABLE = [dict(property_id=p, reason="check not built yet in this round (planned: generated-input check per DESIGN.md section 4); nothing is claimed for it until its check exists")
                  for p in ALL if p not in CHECKS]
NOTES = "All checks are property-based tests / fuzzers (rapid v1.3.0; native go fuzz through rapid.MakeFuzz in thorough tiers only). ./check <ID> <tier> rebuilds from /repo's working tree (VERIF_REPO overrides for sensitivity trials), exit 0/1/2 = held / violation / inconclusive-infrastructure."
