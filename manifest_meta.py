ALL = ["C%02d" % i for i in range(1, 21)]

META = {
 "C19": dict(
  text="Exhaustive enumeration of all 146097 start dates of a Gregorian 400-year cycle (3 steps each) and 12 whole-cycle runs against Go's time package, plus generated windows in years 1..9999. The calendar is periodic with period 400 years, so the enumeration covers every day-to-day transition the generator can make; generated search covers run lengths and years outside the cycle.",
  design_ref="DESIGN.md section 4, C19",
  note="Trusts Go's time.Date/AddDate/YearDay as the calendar oracle and the catalogue path (ApplyParameters/Run) to deliver parameters to the kernel (that path is C04's subject).",
  technique="exhaustive enumeration of a finite domain + property-based testing (rapid) against a reference calendar"),
}

import os, sys
sys.path.insert(0, os.path.dirname(os.path.abspath(__file__)))
from checks_config import CHECKS
NOT_APPLICABLE = [dict(property_id=p, reason="check not built yet in this round (planned: generated-input check per DESIGN.md section 4); nothing is claimed for it until its check exists")
                  for p in ALL if p not in CHECKS]
NOTES = "All checks are property-based tests / fuzzers (rapid v1.3.0, native go fuzz in thorough tiers only). ./check <ID> <tier> rebuilds from /repo's working tree (VERIF_REPO overrides for sensitivity trials), exit 0/1/2 = held / violation / inconclusive-infrastructure."
