#!/usr/bin/env python3
"""seedcheck.py <dir-with-patch.diff> <check-ids...> [--tier quick] : apply a seeded change to a scratch copy of /repo,
confirm it builds and passes the pinned suite, run the named checks against it, report, remove the copy."""
import os, shutil, subprocess, sys, tempfile
args = sys.argv[1:]
tier = "quick"
if "--tier" in args:
    i = args.index("--tier"); tier = args[i + 1]; del args[i:i + 2]
src = os.path.abspath(args[0]); ids = args[1:]
d = tempfile.mkdtemp(prefix="seedchk-")
env = dict(os.environ, GOFLAGS="-mod=mod", GOPROXY="off", GOSUMDB="off")
try:
    subprocess.check_call(["rsync", "-a", "--exclude", ".git", "/repo/", d + "/"])
    p = subprocess.run(["patch", "-p1", "-s", "-i", os.path.join(src, "patch.diff")], cwd=d, capture_output=True, text=True)
    print("patch applies:", p.returncode == 0, p.stdout[-300:], p.stderr[-300:])
    b = subprocess.run("go build ./data/... ./models/... ./sim/... ./util/... ./io/json/... ./cmd/ow-single/... ./libopenwater/... && go test -vet=off -count=1 ./data/... ./io/json/... ./util/... 2>&1 | grep -c '^ok'", shell=True, cwd=d, env=env, capture_output=True, text=True)
    print("builds + pinned suite:", b.returncode == 0, b.stdout.strip(), b.stderr[-400:])
    for i in ids:
        r = subprocess.run(["/verif/check", i, tier], env=dict(os.environ, VERIF_REPO=d), capture_output=True, text=True)
        lines = [l for l in r.stdout.splitlines() if l.startswith(("VIOLATION", "OK", "INCONCLUSIVE", "BUILD", "PRE"))]
        fail = [l.strip() for l in r.stdout.splitlines() if "pbt.go" in l or "REPLAY" in l or "process died" in l][-1:]
        print(i, "rc=%d" % r.returncode, "|", " ; ".join(lines[:2])[:300], "|", (fail[0][:400] if fail else ""))
        for l in lines:
            if l.startswith("VIOLATION") and "replay=" in l:
                rp = l.split("replay=")[1].strip()
                keep = os.path.join(src, "caught-by-%s.replay.json" % i)
                try:
                    shutil.copy(rp, keep); os.remove(rp)
                except OSError:
                    pass
finally:
    shutil.rmtree(d, ignore_errors=True)
