#!/usr/bin/env python3
"""seeded_all.py [seed ...]: for every /verif/seeded/<ID>[-rN], apply patch.diff to a scratch copy of /repo and run the
property's own check (quick tier) against it with each VERIF_SEED; prints one line per (seeded change, seed).
Evidence and replays of these runs go to a scratch directory (VERIF_OUT), never to /verif.  SEEDED_PAR = parallel jobs (4)."""
import json, os, shutil, subprocess, sys, tempfile
from concurrent.futures import ThreadPoolExecutor
seeds = sys.argv[1:] or ["0"]
root = "/verif/seeded"


def one(pid):
    if json.load(open(os.path.join(root, pid, "meta.json"))).get("not_a_violation_on_this_tree"):
        return ["%s kept for the record: does not break the property on this tree, the check must stay silent" % pid], 0
    d = tempfile.mkdtemp(prefix="seeded-")
    out = tempfile.mkdtemp(prefix="seeded-out-")
    lines, miss = [], 0
    try:
        subprocess.check_call(["rsync", "-a", "--exclude", ".git", "/repo/", d + "/"])
        p = subprocess.run(["patch", "-p1", "-s", "-i", os.path.join(root, pid, "patch.diff")], cwd=d, capture_output=True, text=True)
        if p.returncode != 0:
            return ["%s PATCH DOES NOT APPLY %s" % (pid, p.stdout[-200:])], 1
        for s in seeds:
            r = subprocess.run(["/verif/check", pid.split("-")[0], "quick"], env=dict(os.environ, VERIF_REPO=d, VERIF_SEED=s, VERIF_OUT=out, VERIF_PAR="6"), capture_output=True, text=True)
            lines.append("%s seed %s %s" % (pid, s, "caught" if r.returncode == 1 else "MISSED rc=%d" % r.returncode))
            if r.returncode != 1: miss += 1
    finally:
        shutil.rmtree(d, ignore_errors=True); shutil.rmtree(out, ignore_errors=True)
    return lines, miss


miss = 0
with ThreadPoolExecutor(int(os.environ.get("SEEDED_PAR", "4"))) as ex:
    for lines, m in ex.map(one, sorted(os.listdir(root))):
        print("\n".join(lines), flush=True); miss += m
sys.exit(1 if miss else 0)
