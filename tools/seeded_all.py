#!/usr/bin/env python3
"""seeded_all.py [seed ...]: for every /verif/seeded/<ID>, apply patch.diff to a scratch copy of /repo and run the
property's own check (quick tier) against it with each VERIF_SEED; prints one line per (seeded change, seed)."""
import json, os, shutil, subprocess, sys, tempfile
seeds = sys.argv[1:] or ["0"]
root = "/verif/seeded"
miss = 0
for pid in sorted(os.listdir(root)):
    d = tempfile.mkdtemp(prefix="seeded-")
    try:
        subprocess.check_call(["rsync", "-a", "--exclude", ".git", "/repo/", d + "/"])
        p = subprocess.run(["patch", "-p1", "-s", "-i", os.path.join(root, pid, "patch.diff")], cwd=d, capture_output=True, text=True)
        if p.returncode != 0:
            print(pid, "PATCH DOES NOT APPLY", p.stdout[-200:]); miss += 1; continue
        for s in seeds:
            r = subprocess.run(["/verif/check", pid.split("-")[0], "quick"], env=dict(os.environ, VERIF_REPO=d, VERIF_SEED=s), capture_output=True, text=True)
            for l in r.stdout.splitlines():
                if l.startswith("VIOLATION") and "replay=" in l:
                    try: os.remove(l.split("replay=")[1].strip())
                    except OSError: pass
            print(pid, "seed", s, "caught" if r.returncode == 1 else "MISSED rc=%d" % r.returncode)
            if r.returncode != 1: miss += 1
    finally:
        shutil.rmtree(d, ignore_errors=True)
sys.exit(1 if miss else 0)
