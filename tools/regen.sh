#!/bin/bash
# Regenerate every generated file of an openwater-core tree in place.
#   regen.sh <repo-dir> <tools-dir>      (tools-dir receives/holds the genny and ow-specgen binaries)
# genny is built from the module cache, ow-specgen from <repo-dir>/pre/ow-specgen.
set -e
REPO=$(cd "$1" && pwd); TOOLS=$2
export GOFLAGS=-mod=mod GOPROXY=off GOSUMDB=off GOTOOLCHAIN=local
mkdir -p "$TOOLS"
cd "$REPO"
[ -x "$TOOLS/genny" ] || go build -o "$TOOLS/genny" github.com/joelrahman/genny
go build -o "$TOOLS/ow-specgen" ./pre/ow-specgen
# genny directives: run exactly what the //go:generate lines say
grep -rl --include='*.go' '^//go:generate genny' . | grep -v '/gen-' | sort | while read f; do
  d=$(dirname "$f"); b=$(basename "$f")
  line=$(grep '^//go:generate genny' "$f" | head -1 | sed 's|^//go:generate genny ||')
  line=${line//\$GOFILE/$b}
  (cd "$d" && eval "\"$TOOLS/genny\" $line") >/dev/null
done
# spec blocks
for f in $(grep -l 'OW-SPEC' models/*/*.go | grep -v '/generated_' | sort); do
  "$TOOLS/ow-specgen" "./$f" >/dev/null
done
