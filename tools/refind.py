#!/usr/bin/env python3
"""refind.py [commit ...]: for every repaired defect listed in known_findings.json ("fixed"), revert that one commit in a
scratch git worktree of /repo (templates regenerated), confirm the tree builds and passes the pinned suite, and run the
property's own check against it (quick tier, VERIF_SEED 0..5, then thorough) until it reports the violation again.
The shrunk replay file of the first report is kept as /verif/regressions/<ID>/<commit>.json: the quick tier re-runs
these files before any search (pbt.Regressions).  Prints one line per defect."""
import json, os, shutil, subprocess, sys, tempfile
from concurrent.futures import ThreadPoolExecutor
ENV = dict(os.environ, GOFLAGS="-mod=mod", GOPROXY="off", GOSUMDB="off", GOTOOLCHAIN="local")
only = [a for a in sys.argv[1:] if not a.startswith("--")]
fixed = [f for f in json.load(open("/verif/known_findings.json"))["fixed"] if not only or f["commit"] in only]
if "--seeded" in sys.argv:
    # the same for the seeded changes kept under /verif/seeded: apply patch.diff instead of reverting a commit
    fixed = [dict(property=d.split("-")[0], commit=d, patch=os.path.join("/verif/seeded", d, "patch.diff"),
                  what=json.load(open(os.path.join("/verif/seeded", d, "meta.json")))["needs_to_manifest"])
             for d in sorted(os.listdir("/verif/seeded")) if (not only or d in only)
             and not json.load(open(os.path.join("/verif/seeded", d, "meta.json"))).get("not_a_violation_on_this_tree")]


def one(f):
    pid, commit = f["property"], f["commit"]
    wt = tempfile.mkdtemp(prefix="refind-%s-" % commit, dir=os.path.expanduser("~"))
    out = tempfile.mkdtemp(prefix="refind-out-", dir=os.path.expanduser("~"))
    os.rmdir(wt)
    try:
        subprocess.check_call(["git", "-C", "/repo", "worktree", "add", "--detach", "-q", wt, "HEAD"])
        if f.get("patch"):
            r = subprocess.run(["patch", "-p1", "-s", "-i", f["patch"]], cwd=wt, capture_output=True, text=True)
        else:
            r = subprocess.run(["git", "-C", wt, "revert", "-n", commit], capture_output=True, text=True)
        if r.returncode != 0:
            return "%s %s REVERT-CONFLICT %s" % (pid, commit, r.stderr.strip()[-200:].replace("\n", " "))
        ch = subprocess.run(["git", "-C", wt, "diff", "--name-only", "HEAD"], capture_output=True, text=True).stdout.split()
        if not f.get("patch") and any(c.endswith(".got") or os.path.basename(c) in ("arrays.go", "arrays_go.go", "arrays_c.go", "arrayops.go", "hdf5.go", "math.go") for c in ch):
            subprocess.check_call(["/verif/tools/regen.sh", wt, "/tmp/tools"], stdout=subprocess.DEVNULL)
        b = subprocess.run("go build ./data/... ./models/... ./sim/... ./util/... ./io/json/... ./cmd/ow-single/... && go test -vet=off -count=1 ./data/... ./io/json/... ./util/... >/dev/null 2>&1",
                           shell=True, cwd=wt, env=ENV, capture_output=True, text=True)
        if b.returncode != 0:
            return "%s %s does not build / pass the suite with the fix reverted: %s" % (pid, commit, b.stderr[-200:])
        tries = [("quick", str(s)) for s in range(6)] + [("thorough", "0")]
        for tier, seed in tries:
            r = subprocess.run(["/verif/check", pid, tier], env=dict(os.environ, VERIF_REPO=wt, VERIF_OUT=out, VERIF_SEED=seed, VERIF_PAR="6", VERIF_REGRESSIONS_OFF="1"), capture_output=True, text=True)
            if r.returncode == 1:
                reps = [l.split("replay=")[1].strip() for l in r.stdout.splitlines() if l.startswith("VIOLATION") and "replay=" in l]
                rf = json.load(open(reps[0]))
                rf["origin"] = "shrunk failing case found by `check %s %s` (VERIF_SEED=%s) with %s: %s" % (pid, tier, seed, ("seeded change %s applied" % commit) if f.get("patch") else ("fix %s reverted" % commit), f["what"][:300])
                d = os.path.join("/verif/regressions", pid)
                os.makedirs(d, exist_ok=True)
                json.dump(rf, open(os.path.join(d, ("seeded-%s.json" if f.get("patch") else "fix-%s.json") % commit), "w"), indent=1)
                return "%s %s refound tier=%s seed=%s test=%s | %s" % (pid, commit, tier, seed, rf.get("test"), (rf.get("fail") or "")[:160].replace("\n", " "))
            if r.returncode != 0:
                return "%s %s check exited %d: %s" % (pid, commit, r.returncode, r.stdout[-300:])
        return "%s %s NOT REFOUND (quick seeds 0-5, thorough seed 0)" % (pid, commit)
    finally:
        subprocess.run(["git", "-C", "/repo", "worktree", "remove", "--force", wt], capture_output=True)
        shutil.rmtree(wt, ignore_errors=True); shutil.rmtree(out, ignore_errors=True)


with ThreadPoolExecutor(int(os.environ.get("REFIND_PAR", "3"))) as ex:
    for line in ex.map(one, fixed):
        print(line, flush=True)
