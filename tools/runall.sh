#!/bin/bash
# runall.sh <tier> <seed> [ids...]: run every check (or the listed ones) once; one summary line each.
tier=${1:-quick}; seed=${2:-0}; shift 2
ids=${@:-$(cd "$(dirname "$0")/.." && ./check --list)}
cd "$(dirname "$0")/.."
for id in $ids; do
  t0=$(date +%s)
  out=$(VERIF_SEED=$seed ./check $id $tier 2>&1); rc=$?
  t1=$(date +%s)
  echo "$id tier=$tier seed=$seed rc=$rc $((t1-t0))s | $(echo "$out" | grep -E '^(OK|VIOLATION|INCONCLUSIVE|BUILD|PRE)' | head -2 | tr '\n' ' ')"
  if [ $rc -ne 0 ]; then echo "$out" | grep -v 'rapid\] draw' | tail -15; fi
done
