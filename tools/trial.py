#!/usr/bin/env python3
"""Sensitivity trial: apply a change to a scratch copy of the repository and run checks against it.
  trial.py [--regen] [--tier quick] (--patch file.diff | --sub FILE OLD NEW [--sub ...]) -- C01 C02 ...
Exit status 0 if every listed check reported a VIOLATION (change caught)."""
import os, shutil, subprocess, sys, tempfile
a = sys.argv[1:]
regen = False; tier = "quick"; patch = None; subs = []
while a and a[0] != "--":
    if a[0] == "--regen": regen = True; a = a[1:]
    elif a[0] == "--tier": tier = a[1]; a = a[2:]
    elif a[0] == "--patch": patch = os.path.abspath(a[1]); a = a[2:]
    elif a[0] == "--sub": subs.append(a[1:4]); a = a[4:]
    else: sys.exit("bad arg " + a[0])
ids = a[1:]
d = tempfile.mkdtemp(prefix="trial-")
try:
    subprocess.check_call(["rsync", "-a", "--exclude", ".git", "/repo/", d + "/"])
    if patch:
        subprocess.check_call(["git", "apply", "--unsafe-paths", "--directory=" + d, patch], cwd="/") if False else subprocess.check_call(["patch", "-p1", "-s", "-i", patch], cwd=d)
    for f, old, new in subs:
        p = os.path.join(d, f); s = open(p).read()
        if old not in s: sys.exit("pattern not found in %s: %r" % (f, old))
        open(p, "w").write(s.replace(old, new, 1))
    if regen:
        subprocess.check_call(["/verif/tools/regen.sh", d, "/tmp/tools"])
    env = dict(os.environ, GOFLAGS="-mod=mod", GOPROXY="off", GOSUMDB="off")
    b = subprocess.run("go build ./data/... ./models/... ./sim/... ./util/... ./io/json/... && go test -vet=off -count=1 ./data/... ./io/json/... ./util/... >/dev/null", shell=True, cwd=d, env=env, capture_output=True, text=True)
    print("builds+suite passes:", b.returncode == 0, b.stderr[-400:] if b.returncode else "")
    allc = True
    for i in ids:
        r = subprocess.run(["/verif/check", i, tier], env=dict(os.environ, VERIF_REPO=d), capture_output=True, text=True)
        lines = [l for l in r.stdout.splitlines() if l.startswith(("VIOLATION", "OK", "INCONCLUSIVE", "KNOWN", "BUILD"))]
        fail = [l for l in r.stdout.splitlines() if "pbt.go" in l or "REPLAY" in l][-1:] 
        print(i, "rc=%d" % r.returncode, "|", " ; ".join(lines[:2]), "|", (fail[0].strip()[:300] if fail else ""))
        if r.returncode != 1: allc = False
        # do not keep replays produced against mutants
        for l in lines:
            if l.startswith("VIOLATION") and "replay=" in l:
                try: os.remove(l.split("replay=")[1].strip())
                except OSError: pass
    sys.exit(0 if allc else 1)
finally:
    shutil.rmtree(d, ignore_errors=True)
