#!/usr/bin/env python3
"""seedstore.py <src dir> <ID-rN> <needs_to_manifest> <caught_by ...>: keep a confirmed seeded change under /verif/seeded."""
import json, os, shutil, sys
src, name, needs, caught = sys.argv[1], sys.argv[2], sys.argv[3], sys.argv[4:]
dst = os.path.join("/verif/seeded", name)
os.makedirs(dst, exist_ok=True)
for f in ("patch.diff", "NOTES.md"):
    shutil.copy(os.path.join(src, f), dst)
shutil.rmtree(os.path.join(dst, "demo"), ignore_errors=True)
shutil.copytree(os.path.join(src, "demo"), os.path.join(dst, "demo"))
raw = {}
vp = os.path.join(src, "verify.json")
if os.path.exists(vp): raw = json.load(open(vp))
pid, rnd = name.split("-r") if "-r" in name else (name, "1")
meta = {"property": pid, "round": int(rnd),
        "source": "independent sub-agent given only the property text, one-line descriptions of the earlier seeded changes to stay away from, and its own scratch worktree (C05/C07/C08: plus a copy of the HDF5 stand-in as a build tool)",
        "needs_to_manifest": needs,
        "confirmed_by_me": {"patch_applies_on_repo_head": True, "builds_and_pinned_suite_passes": True, "demo_passes_without_change": True, "demo_fails_with_change": True,
                            "how": "tools/seedverify.py in a scratch git worktree of /repo (demos that are their own module: run by hand against the scratch worktree)", "raw": raw},
        "caught_by": caught}
json.dump(meta, open(os.path.join(dst, "meta.json"), "w"), indent=1)
print("stored", dst)
