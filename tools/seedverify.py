#!/usr/bin/env python3
"""seedverify.py <seeddir> <demo-dest-dir-in-repo> <go test args...> -- <check ids...>
Confirms a seeded change myself, in a scratch git worktree of /repo at HEAD:
  1. demo passes on the unchanged tree, 2. patch applies, tree builds, pinned suite passes, 3. demo fails with the patch,
then runs the named checks (quick tier) against the patched worktree and removes it."""
import os, shutil, subprocess, sys, glob, json
a = sys.argv[1:]
cut = a.index("--") if "--" in a else len(a)
seed, dest, testargs, ids = os.path.abspath(a[0]), a[1], a[2:cut], a[cut + 1:]
tier = os.environ.get("SEED_TIER", "quick")
wt = "/tmp/sv/" + os.path.basename(seed)
env = dict(os.environ, GOFLAGS="-mod=mod", GOPROXY="off", GOSUMDB="off")
subprocess.run(["git", "-C", "/repo", "worktree", "remove", "--force", wt], capture_output=True)
os.makedirs("/tmp/sv", exist_ok=True)
subprocess.check_call(["git", "-C", "/repo", "worktree", "add", "--detach", "-q", wt, "HEAD"])
res = {}
try:
    demos = glob.glob(os.path.join(seed, "demo", "*_test.go"))
    def demo():
        for f in demos: shutil.copy(f, os.path.join(wt, dest))
        r = subprocess.run(["go", "test", "-vet=off", "-count=1"] + testargs, cwd=wt, env=env, capture_output=True, text=True)
        for f in demos: os.remove(os.path.join(wt, dest, os.path.basename(f)))
        return r.returncode, (r.stdout + r.stderr)[-600:]
    if dest != "-":
        rc, out = demo(); res["demo_without_change_passes"] = rc == 0
        if rc != 0: print("DEMO FAILS ON UNCHANGED TREE:\n" + out)
    p = subprocess.run(["git", "apply", "--3way", os.path.join(seed, "patch.diff")], cwd=wt, capture_output=True, text=True)
    if p.returncode != 0:
        p = subprocess.run(["patch", "-p1", "-s", "-i", os.path.join(seed, "patch.diff")], cwd=wt, capture_output=True, text=True)
    res["patch_applies"] = p.returncode == 0
    if p.returncode != 0: print(p.stdout[-500:], p.stderr[-500:])
    b = subprocess.run("go build ./data/... ./models/... ./sim/... ./util/... ./io/json/... ./cmd/ow-single/... ./libopenwater/... && go test -vet=off -count=1 ./data/... ./io/json/... ./util/... 2>&1 | grep -c '^ok'", shell=True, cwd=wt, env=env, capture_output=True, text=True)
    res["builds_and_suite_passes"] = b.returncode == 0 and b.stdout.strip() == "5"
    if not res["builds_and_suite_passes"]: print(b.stdout[-300:], b.stderr[-600:])
    if dest != "-":
        rc, out = demo(); res["demo_with_change_fails"] = rc != 0
        if rc == 0: print("DEMO PASSES WITH THE CHANGE")
    caught = {}
    for i in ids:
        r = subprocess.run(["/verif/check", i, tier], env=dict(os.environ, VERIF_REPO=wt), capture_output=True, text=True)
        lines = [l for l in r.stdout.splitlines() if l.startswith(("VIOLATION", "OK", "INCONCLUSIVE", "BUILD", "PRE"))]
        fail = [l.strip() for l in r.stdout.splitlines() if "pbt.go" in l or "REPLAY" in l or "process died" in l][-1:]
        caught[i] = r.returncode
        print(i, "rc=%d" % r.returncode, "|", " ; ".join(lines[:1])[:200], "|", (fail[0][:500] if fail else ""))
        k = 0
        for l in lines:
            if l.startswith("VIOLATION") and "replay=" in l:
                rp = l.split("replay=")[1].strip()
                try:
                    if k == 0: shutil.copy(rp, os.path.join(seed, "caught-by-%s.replay.json" % i))
                    os.remove(rp); k += 1
                except OSError: pass
    res["checks"] = caught
    print(json.dumps(res))
    json.dump(res, open(os.path.join(seed, "verify.json"), "w"))
finally:
    subprocess.run(["git", "-C", "/repo", "worktree", "remove", "--force", wt], capture_output=True)
