#!/usr/bin/env python3
"""coverage.py [--tier quick] [ids...]: which statements of the files a property is anchored in does its check execute?
Runs each check with VERIF_COVER=1 (test binaries built with -cover -coverpkg=<repository>/...), merges the shard
profiles per property and prints, per anchored file, statements executed / total and the line ranges never executed.
A measuring aid for the generators (an anchored branch no generated case reaches is a blind spot whatever the oracle);
nothing here is part of a registered check.  Output also goes to tools/coverage-report.txt."""
import collections, glob, json, os, re, shutil, subprocess, sys, tempfile
a = sys.argv[1:]
tier = "quick"
if a[:1] == ["--tier"]: tier = a[1]; a = a[2:]
props = {}
for l in open("/verif/properties.jsonl"):
    p = json.loads(l); props[p["id"]] = p
ids = a or list(props)
MOD = "github.com/flowmatters/openwater-core/"
# sources of the repository's `package main`s are compiled into harness packages by -overlay
MAINS = {"cmd/ow-sim/": "verif/harness/owsim/zz_repo_", "cmd/ow-single/": "verif/harness/owsingle/zz_repo_", "libopenwater/": "verif/harness/libow/zz_repo_"}
out = tempfile.mkdtemp(prefix="cover-", dir=os.path.expanduser("~"))
report = []
# `go tool cover` opens source files by path and does not see -overlay replacements: work on scratch copies of
# /verif and /repo in which the overlaid files exist for real (same content as the overlay maps them to)
snap = tempfile.mkdtemp(prefix="cover-verif-", dir=os.path.expanduser("~"))
repo = tempfile.mkdtemp(prefix="cover-repo-", dir=os.path.expanduser("~"))
subprocess.check_call(["rsync", "-a", "--exclude", ".git", "--exclude", "evidence", "--exclude", "replays", "--exclude", "seeded", "/verif/", snap + "/"])
subprocess.check_call(["rsync", "-a", "--exclude", ".git", "/repo/", repo + "/"])
sys.path.insert(0, "/verif")
from checks_config import CHECKS  # noqa: E402
for cfg in CHECKS.values():
    ovs = [cfg.get("overlay") or {}] + [st.get("overlay") or {} for t in ("quick", "thorough") for st in cfg[t]["stages"]]
    for ov in ovs:
        for dst, src in ov.get("inject", {}).items():
            shutil.copy(os.path.join(snap, src), os.path.join(repo, dst))
        for rdir, pkg in ov.get("map_main", {}).items():
            for f in glob.glob(os.path.join(repo, rdir, "*.go")):
                if not f.endswith("_test.go"):
                    shutil.copy(f, os.path.join(snap, "harness", pkg, "zz_repo_" + os.path.basename(f)))
for cfg in CHECKS.values():
    for step in cfg.get("pre", []):
        if step.get("kind") == "harness_main":
            for f in glob.glob(os.path.join(repo, step["repo_dir"], "*.go")):
                if not f.endswith("_test.go"):
                    shutil.copy(f, os.path.join(snap, "harness", step["pkg"], "zz_repo_" + os.path.basename(f)))


def say(s=""):
    print(s, flush=True); report.append(s)


try:
    for pid in ids:
        r = subprocess.run([os.path.join(snap, "check"), pid, tier], env=dict(os.environ, VERIF_COVER="1", VERIF_OUT=out, VERIF_REPO=repo), capture_output=True, text=True)
        if r.returncode != 0:
            say("%s: check exited %d under coverage instrumentation (not evaluated): %s" % (pid, r.returncode, r.stdout[-300:].replace("\n", " | "))); continue
        blocks = {}  # (file, start, end) -> [nstmt, count]
        for f in glob.glob(os.path.join(out, "cover", pid + "-*.out")):
            for l in open(f):
                m = re.match(r"(.+):(\d+)\.\d+,(\d+)\.\d+ (\d+) (\d+)$", l.strip())
                if not m: continue
                k = (m.group(1), int(m.group(2)), int(m.group(3)))
                b = blocks.setdefault(k, [int(m.group(4)), 0]); b[1] += int(m.group(5))
        files = list(props[pid]["anchors"]["files"])
        say("%s  (%s tier)" % (pid, tier))
        for af in files:
            cands = [MOD + af]
            for pre, repl in MAINS.items():
                if af.startswith(pre): cands.append(repl + af[len(pre):])
            sel = {k: v for k, v in blocks.items() if k[0] in cands}
            if not sel and any(ch in af for ch in "*?"):
                import fnmatch
                sel = {k: v for k, v in blocks.items() if fnmatch.fnmatch(k[0], MOD + af)}
            if not sel:
                say("   %-55s not compiled into this check" % af); continue
            tot = sum(v[0] for v in sel.values()); cov = sum(v[0] for v in sel.values() if v[1] > 0)
            miss = collections.defaultdict(list)
            for k, v in sorted(sel.items()):
                if v[1] == 0 and v[0] > 0: miss[k[0]].append((k[1], k[2]))
            say("   %-55s %4d / %4d statements executed" % (af, cov, tot))
            for fn, rs in miss.items():
                # show what is not executed, not where: the first line of each block and the line before it (usually the
                # condition), identical text in the per-type instantiations of a template counted once
                rel = fn.replace(MOD, "")
                for pre, repl in MAINS.items():
                    if fn.startswith(repl): rel = pre + fn[len(repl):]
                try:
                    src = open(os.path.join(repo, rel)).read().split("\n")
                except OSError:
                    src = []
                texts = collections.Counter()
                for a0, b0 in rs:
                    if 0 < a0 <= len(src):
                        cond = src[a0 - 1].strip()
                        body = src[a0].strip() if a0 < len(src) else ""
                        texts["%s  ->  %s" % (cond[:90], body[:70])] += 1
                say("        never executed in %s (%d blocks):" % (rel, len(rs)))
                for tx, n in texts.most_common(60):
                    say("            %dx  %s" % (n, tx))
        say()
finally:
    shutil.rmtree(out, ignore_errors=True); shutil.rmtree(snap, ignore_errors=True); shutil.rmtree(repo, ignore_errors=True)
open("/verif/tools/coverage-report.txt", "w").write("\n".join(report) + "\n")
