#!/usr/bin/env python3
"""mutate.py [-n N] [-j JOBS] [--seed S] [--tier quick] [--out report.jsonl] GROUP ...
Sensitivity campaign: small syntactic changes (operator swaps, dropped assignments, negated conditions, min/max swaps)
are applied one at a time to a scratch copy of /repo; a change that still compiles and passes the pinned 42-test suite
is run against the checks responsible for that file (quick tier, VERIF_REPO pointing at the copy, evidence and replays
in a scratch VERIF_OUT).  Output: one JSON line per change (file, line, before, after, per-check exit status).
Survivors are *candidates*: a change can be equivalent, or break nothing the property states; each survivor has to be
read before it says anything about a check.  Nothing here is part of a registered check."""
import json, os, random, re, shutil, subprocess, sys, tempfile
from concurrent.futures import ThreadPoolExecutor, as_completed

GROUPS = {
    # name: (files, regen?, checks)
    "arrays": (["data/arrays.go", "data/arrays_go.go", "data/sliceops.go"], True, ["C01", "C02"]),
    "arrayops": (["data/arrayops.go"], True, ["C02"]),
    "cdata": (["data/cdata/arrays_c.go"], True, ["C03"]),
    "libow": (["libopenwater/single.go"], False, ["C03"]),
    "wrapper": (["pre/ow-specgen/generated_struct.got"], True, ["C04"]),
    "owsim": (["cmd/ow-sim/main.go", "cmd/ow-sim/running.go", "cmd/ow-sim/writer.go", "cmd/ow-sim/simulation_model_reference.go"], False, ["C07"]),
    "io": (["io/hdf5.go", "io/hdf5_util.go"], True, ["C08"]),
    "gr4j": (["models/rr/gr4j.go"], False, ["C15", "C10"]),
    "rr": (["models/rr/sacramento.go", "models/rr/simhyd.go", "models/rr/surm.go", "models/rr/coeff.go"], False, ["C10"]),
    "routing": (["models/routing/storage_routing.go", "models/routing/muskingum.go", "models/routing/lag.go"], False, ["C11"]),
    "constituents": (["models/routing/decay.go", "models/routing/lumpedconstituent.go", "models/routing/instream_coarse_sediment.go",
                      "models/routing/instream_fine_sediment.go", "models/routing/instream_particulate_nutrient.go",
                      "models/storage/dissolved_decay.go", "models/storage/sediment_trapping.go", "models/storage/trap_all.go"], False, ["C12"]),
    "storage": (["models/storage/storage.go"], False, ["C13"]),
    "identities": (["models/conversion/delivery_ratio.go", "models/conversion/depthtorate.go", "models/conversion/fixed_partition.go",
                    "models/conversion/rating_partition.go", "models/conversion/scale.go", "models/conversion/var_partition.go",
                    "models/functions/compute_proportion.go", "models/functions/gate.go", "models/functions/partition_demand.go",
                    "models/functions/sum.go", "models/functions/input.go", "models/generation/emc_dwc.go",
                    "models/generation/fixed_concentration.go", "models/generation/pass_load_if_flow.go"], False, ["C16"]),
    "json": (["io/json/json.go", "sim/single.go", "cmd/ow-single/main.go"], False, ["C17"]),
    "fn": (["util/fn/root.go", "util/fn/piecewise.go"], False, ["C18"]),
    "dates": (["models/functions/dates.go"], False, ["C19"]),
    "climate": (["models/climate/climate_variables.go"], False, ["C20"]),
    # second campaign: files and pairings the first one left out
    "arraysint": (["data/arraysint.go", "util/slice/slice.go"], False, ["C02", "C01"]),
    "conv": (["conv/slices.go"], False, ["C08"]),
    "generation": (["models/generation/bank_erosion.go", "models/generation/dissolved_nutrients.go", "models/generation/gully.go",
                    "models/generation/particulate_nutrients.go", "models/generation/sednet_gully.go", "models/generation/sednet_gully_alt.go",
                    "models/generation/uslefine.go"], False, ["C16"]),
    "sim": (["sim/runnable.go", "sim/catalog.go"], False, ["C04", "C17"]),
    "hotstart": (["models/rr/gr4j.go", "models/rr/sacramento.go", "models/rr/simhyd.go", "models/rr/surm.go", "models/routing/storage_routing.go",
                  "models/routing/muskingum.go", "models/routing/lag.go", "models/routing/instream_dissolved_nutrient.go",
                  "models/storage/storage.go", "models/routing/instream_fine_sediment.go", "models/functions/baseflow.go"], False, ["C06", "C14"]),
    "wrapper2": (["pre/ow-specgen/generated_struct.got"], True, ["C04", "C06", "C10", "C16"]),
}

SWAPS = [(r" \+ ", " - "), (r" - ", " + "), (r" \* ", " / "), (r" / ", " * "),
         (r" <= ", " < "), (r" < ", " <= "), (r" >= ", " > "), (r" > ", " >= "), (r" == ", " != "), (r" != ", " == "),
         (r" \+= ", " -= "), (r" -= ", " += "), (r" \*= ", " /= "),
         (r" && ", " || "), (r" \|\| ", " && "),
         (r"math\.Min\(", "math.Max("), (r"math\.Max\(", "math.Min("),
         (r"\+1\b", "+2"), (r"-1\b", "-0"), (r"\+\+", "--")]


def code_lines(src):
    """indices of lines that are code (outside /* */ blocks and not // lines, not import/package/go:generate)"""
    out, inblock = [], False
    for i, l in enumerate(src):
        s = l.strip()
        if inblock:
            if "*/" in s: inblock = False
            continue
        if s.startswith("/*"):
            if "*/" not in s: inblock = True
            continue
        if not s or s.startswith("//") or s.startswith(("package ", "import ", '"')): continue
        out.append(i)
    return out


def sites(path):
    src = open(path).read().split("\n")
    res = []
    for i in code_lines(src):
        l = src[i]
        code = l.split("//")[0]
        if "fmt." in code or "panic(" in code or "Print" in code or "errors." in code: continue
        for pat, rep in SWAPS:
            for m in re.finditer(pat, code):
                res.append((i, l[:m.start()] + rep + l[m.end():], "swap"))
        if re.match(r"^\s*[\w\.\[\]\(\), ]+\s(\+|-|\*|/)?=\s[^=].*[^{,(]$", code) and ":=" not in code and "for " not in code and "if " not in code:
            res.append((i, re.match(r"^\s*", l).group(0) + "// (dropped) " + l.strip(), "drop"))
        m = re.match(r"^(\s*(?:} else )?if )(.*)( \{\s*)$", code)
        if m and ";" not in m.group(2):
            res.append((i, m.group(1) + "!(" + m.group(2) + ")" + m.group(3), "negate"))
    return src, res


SNAP = "/verif"  # main() replaces it by a snapshot, so that /verif can be edited while a campaign runs
ENV = dict(os.environ, GOFLAGS="-mod=mod", GOPROXY="off", GOSUMDB="off", GOTOOLCHAIN="local")


def run_one(job):
    k, group, f, line, before, after, kind, regen, checks, tier, par = job
    d = tempfile.mkdtemp(prefix="mut-")
    out = tempfile.mkdtemp(prefix="mut-out-")
    rec = dict(k=k, group=group, file=f, line=line + 1, kind=kind, before=before.strip(), after=after.strip())
    try:
        subprocess.check_call(["rsync", "-a", "--exclude", ".git", "/repo/", d + "/"])
        p = os.path.join(d, f)
        src = open(p).read().split("\n"); src[line] = after
        open(p, "w").write("\n".join(src))
        if regen:
            r = subprocess.run(["/verif/tools/regen.sh", d, "/tmp/tools"], capture_output=True, text=True)
            if r.returncode != 0:
                rec["status"] = "regen-fails"; return rec
        b = subprocess.run("go build ./... 2>&1 | grep -v hdf5 | grep -v '^#' | head -5; go vet ./data/... ./models/... ./sim/... ./util/... ./io/json/... >/dev/null 2>&1; "
                           "go build ./data/... ./models/... ./sim/... ./util/... ./io/json/... ./cmd/ow-single/... && go test -vet=off -count=1 ./data/... ./io/json/... ./util/... >/dev/null 2>&1",
                           shell=True, cwd=d, env=ENV, capture_output=True, text=True)
        if b.returncode != 0:
            rec["status"] = "killed-by-build-or-suite"; return rec
        rec["checks"] = {}
        for c in checks:
            r = subprocess.run([os.path.join(SNAP, "check"), c, tier], env=dict(os.environ, VERIF_REPO=d, VERIF_OUT=out, VERIF_PAR=str(par), VERIF_STAGE_TIMEOUT="90"), capture_output=True, text=True)
            rec["checks"][c] = r.returncode
            if r.returncode == 1:
                msg = [l.strip() for l in r.stdout.splitlines() if "pbt.go" in l or "process died" in l or "DATA RACE" in l or "BUILD" in l]
                rec.setdefault("msg", {})[c] = (msg[-1][:240] if msg else "")
                break
            if r.returncode not in (0, 1):
                rec.setdefault("msg", {})[c] = r.stdout[-300:]
        rcs = rec["checks"].values()
        rec["status"] = "caught" if 1 in rcs else ("broken-run" if any(x not in (0, 1) for x in rcs) else "SURVIVED")
        return rec
    finally:
        shutil.rmtree(d, ignore_errors=True); shutil.rmtree(out, ignore_errors=True)


def main():
    a = sys.argv[1:]
    n, jobs, seed, tier, outp = 20, 5, 1, "quick", None
    while a and a[0].startswith("-"):
        if a[0] == "-n": n = int(a[1]); a = a[2:]
        elif a[0] == "-j": jobs = int(a[1]); a = a[2:]
        elif a[0] == "--seed": seed = int(a[1]); a = a[2:]
        elif a[0] == "--tier": tier = a[1]; a = a[2:]
        elif a[0] == "--out": outp = a[1]; a = a[2:]
        else: sys.exit("bad arg " + a[0])
    groups = a or list(GROUPS)
    global SNAP
    SNAP = tempfile.mkdtemp(prefix="verif-snap-", dir=os.path.expanduser("~"))
    subprocess.check_call(["rsync", "-a", "--exclude", ".git", "--exclude", "evidence", "--exclude", "replays", "--exclude", "seeded", "/verif/", SNAP + "/"])
    done = set()
    if outp and os.path.exists(outp):
        for l in open(outp):
            r = json.loads(l); done.add((r["file"], r["line"], r["after"]))
    rnd = random.Random(seed)
    work = []
    for g in groups:
        files, regen, checks = GROUPS[g]
        allsites = []
        for f in files:
            src, ss = sites(os.path.join("/repo", f))
            allsites += [(f, i, src[i], new, kind) for i, new, kind in ss]
        rnd.shuffle(allsites)
        for f, i, before, after, kind in allsites[:n]:
            if (f, i + 1, after.strip()) in done: continue
            work.append((len(work), g, f, i, before, after, kind, regen, checks, tier, max(2, 16 // jobs)))
        print("# group %s: %d candidate sites, %d sampled" % (g, len(allsites), min(n, len(allsites))), flush=True)
    fo = open(outp, "a") if outp else None
    tally = {}
    with ThreadPoolExecutor(jobs) as ex:
        for fut in as_completed([ex.submit(run_one, w) for w in work]):
            rec = fut.result()
            tally[(rec["group"], rec["status"])] = tally.get((rec["group"], rec["status"]), 0) + 1
            line = json.dumps(rec)
            if fo: fo.write(line + "\n"); fo.flush()
            if rec["status"] in ("SURVIVED", "broken-run"):
                print(line, flush=True)
    for k in sorted(tally): print("#", k[0], k[1], tally[k])
    shutil.rmtree(SNAP, ignore_errors=True)


main()
