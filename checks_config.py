"""Per-property configuration of ./check.  A tier is a list of stages; a stage runs the
property's test binary (optionally built with -race) on `shards` processes with
`checks` rapid cases per rapid test."""

def st(checks, shards=1, **kw):
    d = dict(checks=checks, shards=shards)
    d.update(kw)
    return d

CHECKS = {
    "C19": dict(
        pkg="c19", level="exploration",
        rule="exhaustive: every start date of the 400-year cycle 1600-01-01..1999-12-31 run for 3 steps (one evaluation per start date), "
             "12 whole-cycle runs of 146463 steps, plus rapid-drawn (start date in years 1..9999, 1-4 consecutive start dates, run length) windows; "
             "oracle = Go time.AddDate (proleptic Gregorian): day, month, year, YearDay. Non-trivial = the window contains a month end, 29 Feb or a century year; distinct = distinct start date / case",
        assumptions=["Go's time package implements the proleptic Gregorian calendar correctly"],
        quick=dict(stages=[st(2000, timeout=300)]),
        thorough=dict(stages=[st(150000, shards=16, timeout=3000)]),
    ),
    "C01": dict(
        require={'write-through-depth>=2-stepped': 0.05, 'bulk-write-noncontiguous-target': 0.1, 'c-backed': 0.2, '__nontrivial__': 0.2},
        pkg="c01", level="exploration",
        rule="rapid-generated histories (1-40 operations: slice, rank-reducing slice, Get/Get1-3, Set/Set1-3, Apply, Apply1, ApplySlice, CopyFrom) over one root of a drawn element type (8) and back-end (Go slice / C memory with canaries), up to 4 dimensions of extent 1..6 (9 in the thorough tier), in one case of five with one axis of 8..70 elements, "
             "executed against an extensional reference model (a view = explicit list of storage offsets); after every operation the raw storage, every live view element-by-element and the caller's loc vectors are compared. "
             "Non-trivial = the history writes through a view of depth >= 2 whose chain has a step > 1, or makes a bulk write to a non-contiguous target; distinct = distinct history (hash of the operation list)",
        assumptions=["C-backed int/uint arrays hold 32-bit C ints: generated values stay in the common range"],
        quick=dict(stages=[st(4000, timeout=600)]),
        thorough=dict(stages=[st(0, fuzz="FuzzSliceWriteHistories", fuzztime="60s", timeout=600), st(250000, shards=16, timeout=3000)]),
    ),
    "C02": dict(
        require={'V:non-contiguous': 0.03, 'mixed-contiguity': 0.02, 'big-array(>=1021 elements, size next to a block boundary)': 0.005, '__nontrivial__': 0.2},
        pkg="c02", level="exploration",
        rule="rapid-generated views (classes forced: whole, leading rows, row-gapped, column, stepped, single element, extent-1 dims, slice chains to depth 3, reshaped) of all 8 element types and both back-ends; for each view: Unroll, Contiguous, Maximum/Minimum, "
             "ReshapeFast, Reshape/MustReshape to right and wrong sizes, aliasing of reshape/unroll results, and one binary operation (CopyFrom, ApplySlice, Scale, AddTo, ApplyFunc1) against a second view of either contiguity (plus large whole-array cases: 1021..131075 elements, counts within 3 of a power of two or twice one, where a blocked or size-thresholded fast path has its fencepost; Scale / AddTo / ApplyFunc1 in one case of five with the destination itself as the source; CopyFrom in one case of three with a source smaller than the destination, which lands in its leading corner), all compared with the row-major element-wise definition on the extensional model; "
             "plus the integer helpers (Offsets, IDivMod, Increment, Product, Multiply, Argmax, Maximum) on random vectors. Non-trivial = the view is non-contiguous, stepped or reshaped, or the binary operation has mixed contiguity or works in place, or a helper case of rank >= 2; distinct = distinct case",
        assumptions=[],
        quick=dict(stages=[st(6000, timeout=600)]),
        thorough=dict(stages=[st(0, fuzz="FuzzIndexHelpers", fuzztime="60s", timeout=600), st(0, fuzz="FuzzViewOperations", fuzztime="60s", timeout=600), st(200000, shards=16, timeout=3000)]),
    ),
    "C03": dict(
        require={'initStates-copy-back': 0.01, '__nontrivial__': 0.2},
        pkg="c03", level="exploration",
        pre=[dict(kind="harness_main", repo_dir="libopenwater", pkg="libow", out="libopenwater.so", env="VERIF_LIBOW_SO", flags=["-buildmode=c-shared"]),
             dict(out="abi-driver", env="VERIF_ABI_DRIVER", cmd=["gcc", "-O1", "-w", "-o", "{out}", "{verif}/cdriver/driver.c", "-ldl"], cwd="{verif}")],
        rule="(a) every generated C01 history / C02 view-operation case executed in lock-step on a Go-backed and a C-backed root (C memory = anonymous mapping outside the Go heap with canaries, in 2/3 of the cases flush against a PROT_NONE page at its end or start): all observations (element reads, Unroll, Shape, Contiguous, errors, whole storage after each step) must be identical and no byte outside the buffer may change. "
             "(b) RunSingleModel: generated (any catalogued model, 1..6 cells, parameter sets and input blocks equal to / fewer than / coprime with the cell count, T<=30, output buffer exact or larger, initStates true/false, states NULL or not) called in-process with C argument types on guarded buffers, and through the real C ABI (libopenwater.so built with -buildmode=c-shared, loaded by a C driver that places every buffer flush against PROT_NONE pages at its end or start, with canaries): outputs and final states (incl. library-initialised states copied back) bit-identical to the Go API run, inputs and parameters unchanged, no access outside the buffers. "
             "(c) 2-8 goroutines read one view object (any element type, Go- or C-backed, any generated view) through every read accessor (Get, Get1/2/3, Unroll, Maximum, Minimum, Shape, Len, Contiguous, Slice) at once, as the per-cell goroutines of every generated Run do with the shared parameter and input arrays; every value must equal the extensional model, and the stage runs under the race detector (an accessor that writes to the array object is reported whatever the timing). "
             "Non-trivial = (a) as C01/C02; (c) a C-backed view of >= 2 elements; (b) >= 2 cells with fewer parameter or input sets than cells, or initStates with copy-back; distinct = distinct case",
        assumptions=["C int/uint are 32-bit, Go's 64-bit: values are generated in the common range", "writes through slices returned by Unroll are excluded from the lock-step (C views unroll to copies by design)"],
        quick=dict(stages=[st(2500, run="TestLockStepGoVsC", timeout=600),
                           st(200, race=True, run="TestConcurrentReaders", timeout=600),
                           st(1200, pkg="libow", overlay=dict(map_main={"libopenwater": "libow"}), run="TestEntryPointInProcess", timeout=600),
                           st(150, pkg="libow", overlay=dict(map_main={"libopenwater": "libow"}), run="TestEntryPointThroughCABI", timeout=600)]),
        thorough=dict(stages=[st(0, fuzz="FuzzLockStepGoVsC", fuzztime="60s", timeout=600), st(90000, shards=10, run="TestLockStepGoVsC", timeout=3000),
                              st(6000, shards=3, race=True, run="TestConcurrentReaders", timeout=3000),
                              st(40000, shards=3, pkg="libow", overlay=dict(map_main={"libopenwater": "libow"}), run="TestEntryPointInProcess", timeout=3000),
                              st(30000, shards=3, pkg="libow", overlay=dict(map_main={"libopenwater": "libow"}), run="TestEntryPointThroughCABI", timeout=3000)]),
    ),
    "C04": dict(
        require={'P<N': 0.05, 'B<N': 0.05, 'P>N': 0.02, 'many-cells(>=31)': 0.02, 'table-lengths-differ': 0.01, '__nontrivial__': 0.2},
        pkg="c04", level="exploration",
        rule="rapid-generated (model from the whole catalogue, N=1..8 cells - in one case of twelve 31..257 cells around powers of two, rarely 1023..4100 - P parameter sets and B input blocks each in {N, 1, divisor of N, coprime with N, N-1} or, in one case of eight, more than N, T=1..40, per-cell table lengths, states from the model's own initialisation / a previous run, outputs exact-size or with extra cells/timesteps, state rows with extra columns, Go- or C-backed arrays); "
             "oracle: every cell run alone on a fresh model object (parameter column i mod P, input block i mod B, its own state row): outputs and final states bit-identical, inputs/parameters bit-unchanged, sentinel outside the run region intact; InitialiseStates(N) row i = the cell initialised alone. "
             "Non-trivial = N>=2 and (P<N or B<N or table lengths differ between cells); distinct = (model,N,P,B,T,layout,parameters)",
        assumptions=["kernels are exercised inside their documented/physical parameter domain (simref.DrawCell); outside it some kernels panic in the cell goroutine"],
        quick=dict(stages=[st(2500, timeout=900)]),
        thorough=dict(stages=[st(0, fuzz="FuzzVectorisedRun", fuzztime="60s", timeout=600), st(12000, shards=16, timeout=3500)]),
    ),
    "C06": dict(
        require={'multiple-splits': 0.1, '__nontrivial__': 0.2},
        pkg="c06", level="exploration",
        rule="rapid-generated (stateful model, parameters in domain, series of 2..80 steps, initial states from the model or a previous run, 1-4 split points incl. 1-step segments); oracle: outputs and final states of the segmented run (states carried) equal the uninterrupted run "
             "(numerically equal up to 1e-9 relative round-off; StorageRouting within 50x its solver mass-balance tolerance). Non-trivial = >=1 split and the state changed before it; distinct = distinct case",
        assumptions=["StorageRouting tolerance: |dS| <= 50*1e-3 m^3, |dQ| <= 50*1e-3/DeltaT (the index flow carried inside one call only seeds the solver)",
                     "round-off: 1e-9 relative + 1e-12 of the series magnitude; Sacramento (stores kept scaled by 1+side inside a call, integer number of increments per step: an ulp of round-off can become a visible jump): hot-start cases use side 0 or 1, for which the scaling is exact"],
        quick=dict(stages=[st(3000, timeout=900)]),
        thorough=dict(stages=[st(25000, shards=16, timeout=3500)]),
    ),
    "C14": dict(
        require={'causality-interior-cut-stateful': 0.05, 'history>=3-runs-2-models': 0.1, 'calibration-loop-vs-fresh-process': 0.02, "states-from-the-object's-InitialiseStates": 0.1},
        pkg="c14", level="exploration",
        rule="rapid-generated (any catalogued model, parameters/inputs/states in domain; a history of 0-4 other runs on the same object with other parameters or on other models; in one case of ten a calibration loop (variants of the case with one parameter scaled by 1-1/1024 run first on fresh objects, then the case; result compared bit for bit with the case run in a process of its own - this test binary re-executed); in one case of three every run starts from the states the model object itself hands out (InitialiseStates, as ow-single and the C entry point do) instead of a state row built by the harness; a cut t and a replacement or truncation of the inputs after t); oracle (metamorphic): bit-identical outputs and final states on repeat / fresh object / after the history; outputs[0..t] bit-identical under any change after t; inputs and parameters unchanged. "
             "Non-trivial = history involving >= 2 model types, or an interior cut on a stateful model; distinct = distinct case",
        assumptions=[],
        quick=dict(stages=[st(4000, shards=8, timeout=900)]),
        thorough=dict(stages=[st(20000, shards=16, timeout=3500)]),
    ),
    "C10": dict(
        require={'storm': 0.2, '__nontrivial__': 0.1},
        pkg="c10", level="exploration",
        rule="rapid-generated (GR4J / Sacramento / Simhyd / Surm / RunoffCoefficient, parameters in the documented or physical ranges, rainfall/PET series mixing dry spells, exponential bulk and storms, length 1..80 (thorough to 3000), initial states zero or from a previous run, GR4J classes x2<=0 and x2=0 with PET=0); "
             "oracle (invariants over the whole output history): outputs finite and >= 0, stores within [0, capacity] at the end and at drawn cut points, runoff = quick/surface + baseflow, cumulative runoff (+ actual ET) <= cumulative rainfall + initial storage, GR4J balance closes for x2=0, PET=0. "
             "Non-trivial = series with a storm (> 20 mm), a dry spell of >= 5 steps and length >= 20; distinct = distinct case",
        assumptions=["Surm smax >= 10 mm (below that its ET term 10*S/smax is not bounded by the store); Sacramento capacities >= 5 mm; GR4J budget only for x2 <= 0",
                     "tolerance 1e-9*(1+sum of magnitudes entering the identity)"],
        quick=dict(stages=[st(4000, shards=8, timeout=900)]),
        thorough=dict(stages=[st(100000, shards=16, timeout=3500)]),
    ),
    "C15": dict(
        require={'__nontrivial__': 0.1},
        pkg="c15", level="exploration",
        rule="rapid-generated ((x1,x2,x3,x4) over the documented ranges with x4 forced through every unit-hydrograph length class and values at/just below/just above integers and half-integers, non-negative rain/PET series, initial stores zero or carried from a warm-up of the reference); "
             "oracle: an independent implementation of Perrin et al. (2003) (simref/gr4jref.go) compared step by step: from the code's own state after every step, one step of the reference must give the code's runoff and next state (S, R, UH stores) to 1e-11 relative (no round-off is carried between steps; a whole-run comparison is meaningless where the routing-store map is expanding). Non-trivial = x4 >= 2 or x4 < 1 and a storm; distinct = distinct case",
        assumptions=["the reference implementation in simref/gr4jref.go transcribes the published equations correctly"],
        quick=dict(stages=[st(4000, timeout=900)]),
        thorough=dict(stages=[st(30000, shards=16, timeout=3000)]),
    ),
    "C11": dict(
        require={'path:solved': 0.05, 'path:zero-outflow': 0.03, 'lateral>0': 0.03, 'lag>length': 0.03},
        pkg="c11", level="exploration",
        rule="rapid-generated StorageRouting cases (k log-uniform 1..1e6, m in [0.3,1], exactly 1, and in one case of eight just below 1 (1-m from 1e-6 to 5e-3), dead storage 0 or >0, bias 0 or 0<bias with 2*k*bias<=dt, area 0 or >0 with rain/evaporation, initial storage 0 or >0, series 1..60 with zero-flow spells), Muskingum cases inside 2KX<=dt<=2K(1-X) (steady flows with equilibrium initial state; finite events from rest with a zero tail), Lag cases (lag 0..12, series shorter and longer than the lag, carried buffer, series fed in 1-3 calls); "
             "oracles: per-step water balance S_t - S_{t-1} = (I+L-Q-E)*dt with E as the model defines it (1e-9 relative + the solver's 1e-3 m^3), Q,S >= 0, S = k*Q^m + dead within 2x the solver tolerance (horizontal or vertical distance to the curve), steady flow unchanged, event volume = inflow + lateral volume (geometric remainder of the recession added), outflow = buffer ++ inflow delayed by lag, final buffer = last lag inflows. "
             "Non-trivial = StorageRouting run entering >= 2 exit paths / Muskingum with lateral > 0 / Lag with lag > (segment) length; distinct = distinct case",
        assumptions=["net evaporation is taken exactly as the model defines it (unit of area undocumented)", "Muskingum remainder uses the textbook coefficients computed in the check"],
        quick=dict(stages=[st(4000, timeout=900)]),
        thorough=dict(stages=[st(0, fuzz="FuzzStorageRouting", fuzztime="60s", timeout=600), st(120000, shards=16, timeout=3500)]),
    ),
    "C12": dict(
        require={'InstreamFineSediment:deposition': 0.005, 'InstreamFineSediment:remobilisation': 0.005, 'LumpedConstituentRouting:flush': 0.02, '__nontrivial__': 0.2},
        pkg="c12", level="exploration",
        rule="rapid-generated cases for the eight constituent models (parameters in range; load/flow/volume series with zero-flow and near-empty steps forced: volume and outflow zero or below/above the 0.01 m^3 threshold together; initial stored masses 0 or >0, fine sediment also negative = fraction of capacity; both branches of each model; fine sediment: overbank steps forced in half of the cases with a bank-full flow; rarely a series of 1023..8193 steps), stepped one timestep at a time with carried states so that the stored mass after every step is visible; "
             "oracle: per-step and whole-run budget stored_before + in*dt = out*dt + deposited/trapped/decayed/floodplain + stored_after within 1e-9 relative, the documented flush (working volume < 0.01 m^3: nothing leaves, stored mass dropped) as the only permitted loss, loads and in-stream stores >= 0 for non-negative inputs, remobilisation <= channel store, channel store = previous + reported net deposition; and, the budget having been established step by step, the same series run in ONE call must give the same loads and final stores (1e-9 relative), with series of 1025 / 4097 / 5000 steps enumerated per model and branch on every run. "
             "Non-trivial = the run visits >= 2 branches of the model; distinct = distinct case",
        assumptions=["forcing values below 1e-6 of the series scale are snapped to zero (a reach volume of 1e-300 m^3 overflows concentration = mass/volume; not data)",
                     "StorageTrapAll has no timestep parameter: its budget is taken in the units it reports"],
        quick=dict(stages=[st(4000, shards=8, timeout=900)]),
        thorough=dict(stages=[st(0, fuzz="FuzzMassConserved", fuzztime="60s", timeout=600), st(60000, shards=16, timeout=3500)]),
    ),
    "C13": dict(
        require={'spill': 0.03, 'below-10%': 0.1, 'rain/evaporation-on-water': 0.2, 'sub-step-floor-reached': 0.03},
        pkg="c13", level="exploration",
        rule="rapid-generated Storage cases (monotone level-volume-area tables and min/max release curves with minRelease <= maxRelease, 2..6 points - in one case of twenty 31..100 points -, zero release/area at zero volume; DeltaT 3600..86400; inflow/demand/rainfall/PET series in filling, drawing-down, alternating and balanced modes; initial volume 0, from a previous run, or drawn up to 1.3x full supply; plus a class at the sub-step controller's floor: release slope between 1/sub and 0.16 per second where sub in (6,12] is the last sub-step halving reaches from DeltaT in {7..12, 20, 80, 150, 600, 3600, 21600, 86400}, draw-down from a drawn volume towards equilibria over six decades); "
             "oracle: per-step dV = (inflow - outflow)*dt + (rainfallVolume - evaporationVolume)*dt within 1e-9 relative, V >= 0, final level/area = own interpolation of the tables, clamp(demand, minRel, maxRel) at the lower/upper volume traversed bounds the outflow (with the integrator's own acceptance slack), more only as spill when the volume reached the top of the table. "
             "Non-trivial = rain/evaporation acting on a non-empty store, or a series that both spills and falls below 10%; distinct = distinct case",
        assumptions=["release-curve slopes <= 1e-4 (m^3/s)/m^3 in the general classes and < 1/6 per second in the floor class, and zero release at zero volume, so that the model's minimum sub-timestep (6 s) can follow the draw-down (otherwise the kernel panics by design)",
                     "within a step the volume moves monotonically between its end values (constant forcing, autonomous 1-D dynamics) except around an equilibrium release = net inflow, which the integrator does not resolve (absolute release tolerance 1e-4 m^3/s): there the release bounds are relaxed to the net inflow"],
        quick=dict(stages=[st(1500, run="TestStorageBalanceAndRelease", timeout=900), st(4, shards=3, run="TestStorageLongSeries", timeout=900), st(300, run="TestStorageStepFloor", timeout=900)]),
        thorough=dict(stages=[st(70000, shards=13, run="TestStorageBalanceAndRelease", timeout=3500), st(60, shards=3, run="TestStorageLongSeries", timeout=3500), st(12000, shards=4, run="TestStorageStepFloor", timeout=3500)]),
    ),
    "C16": dict(
        require={'linearity-checked': 0.02, '__nontrivial__': 0.1},
        pkg="c16", level="exploration",
        rule="rapid-generated cases for 20 partition / conversion / generation models (inputs including zero and, for the arithmetic models, negative values; flows of 1e-7..1e-30 for the linear concentration generators; concentrations of exactly zero; fractions and scale factors also outside [0,1]; rating-table inputs at the end points, at knots and inside); "
             "oracle: closed-form reference per model (partition, scale, delivery ratio, depth-to-rate mm*1e-3*area/dt, gate, sum, pass-through, proportion, demand split), identities (outputs sum to input; total = quick + slow; fine share = fine fraction; delivered = generated x ratio/100; zero driver -> zero load; loads >= 0), closed forms for bank erosion and gully generation, and linearity in flow (metamorphic x c) for the concentration-based generators; 1e-12 relative. "
             "Non-trivial = the series has both a zero and a non-zero driver step; distinct = distinct case",
        assumptions=["outside its rating table RatingCurvePartition panics in the cell goroutine (C18 covers the error contract of the interpolation); inputs are generated inside the table"],
        quick=dict(stages=[st(5000, timeout=900)]),
        thorough=dict(stages=[st(0, fuzz="FuzzIdentities", fuzztime="60s", timeout=600), st(120000, shards=16, timeout=3500)]),
    ),
    "C18": dict(
        require={'budget-suffices': 0.03, 'query:between-knots': 0.05},
        pkg="c18", level="exploration",
        rule="FindRoot: rapid-generated continuous functions (monotone piecewise-linear with flat pieces and kinks, power and exponential families, non-monotone waves with f(min)<0<f(max)), any initial guess, tolerance 1e-12..1, iteration limit 0..60, derivative none/exact/wrong/zero, convergence limit arbitrary or small enough not to pre-empt halving; every evaluation point recorded: inside [min,max] and not NaN, returned x inside, returned value == f(x), monotone: |value| <= better end, and < tolerance whenever the limit >= ceil(log2(L*(max-min)/tol))+1 (tolerance resolvable in floating point). "
             "Piecewise: strictly increasing tables of 2..12 knots, in one case of ten 31..366 knots (also as stepped views, and - one case in three - as adjacent contiguous views of one array, the way the wrappers slice tables out of a parameter block, with the surrounding elements compared afterwards), queries at knots (explicitly also the first and the last), between, just outside, far outside, NaN, +-Inf: error exactly outside/NaN, knots within 4 ulp, interpolant within 1e-12 and between the neighbouring values. Non-trivial = root search of >= 3 iterations or non-monotone function / query strictly between knots; distinct = distinct case",
        assumptions=["classes where a bracket end is already within the tolerance, or the iteration limit is 0, only assert: point inside, value = f(point), evaluations inside"],
        quick=dict(stages=[st(10000, timeout=900)]),
        thorough=dict(stages=[st(0, fuzz="FuzzPiecewise", fuzztime="60s", timeout=600), st(0, fuzz="FuzzFindRoot", fuzztime="60s", timeout=600), st(220000, shards=16, timeout=3500)]),
    ),
    "C20": dict(
        require={'pair-straddles-freezing': 0.05, 'humidity-extreme': 0.2},
        pkg="c20", level="exploration",
        rule="rapid-generated (elevation 0..10000 m, 1-20 pairs of points per case: temperature pairs T1<T2 at equal humidity incl. adjacent floats, 1e-9..1e-3 apart and straddling 0 C; humidity pairs at equal temperature; temperatures dense around 0 and integers, humidities dense near 0 and 100, one draw in six on a log scale from 1e-12 % to 1 %); "
             "oracle: outputs finite, vapour pressure > 0 and strictly increasing for T2-T1 >= 1e-6 (non-decreasing for closer pairs), dew point <= wet bulb <= dry bulb, deltaT == dry - wet, dew point non-decreasing in humidity. Non-trivial = a pair straddling freezing or humidity >= 99 or <= 1; distinct = distinct case",
        assumptions=[],
        quick=dict(stages=[st(3000, timeout=900)]),
        thorough=dict(stages=[st(0, fuzz="FuzzClimateOrdering", fuzztime="60s", timeout=600), st(250000, shards=16, timeout=3500)]),
    ),
    "C17": dict(
        require={'missing-parameter-and-input': 0.005, 'nested-encoding': 0.05, 'default-after-an-earlier-request-named-the-parameter': 0.02},
        pkg="c17", level="exploration",
        pre=[dict(kind="harness_main", repo_dir="cmd/ow-single", pkg="owsingle", out="ow-single", env="VERIF_OWSINGLE")],
        rule="(a) rapid-generated structured requests (any non-dimensioned catalogued model, any subset/superset/order of parameters and inputs, including names that differ from a declared one only in the case of a letter - other names, to be ignored -, equal series lengths, values in domain): in-process with all parameters present and both encodings (split / nested), and through the real ow-single binary (child process, stdin/stdout) with subsets so that defaults are used; oracle: decoded outputs/states bit-equal (after the NaN/+Inf/-Inf string mapping) to a direct one-cell run with defaults / zeros, every missing parameter and input named by a log entry and nothing present reported missing. "
             "(b) robustness through the child process: grammar-generated requests (name only, unknown / missing / mistyped name, unequal lengths, wrong types, hostile numbers, truncated / trailing bytes, arbitrary bytes): exit status 0, stdout exactly one JSON document, a non-runnable request answered with a non-empty log and no outputs. "
             "(c) JsonSafeArray on generated float64 views of rank 1..4 (sliced, stepped) with NaN/+-Inf sprinkled, every shiftDim, against nesting computed on the extensional model. Non-trivial = (a) >=1 missing parameter and >=1 missing input (or >1 input series in-process), (b) request that is valid JSON but not runnable, or runnable hostile request, (c) rank >= 3 or stepped view; distinct = distinct case",
        assumptions=["the request is the first JSON value of the input stream (bytes after it are ignored by the streaming decoder; not flagged)",
                     "supplied States are ignored by the runner (documented TODO in the code): the direct run uses the model's own initial states"],
        quick=dict(stages=[st(1500, run="TestJsonSafeArray|TestRunnerInProcess", timeout=900), st(800, run="TestRunnerChildProcess|TestRunnerHistoryOneProcess", timeout=900)]),
        thorough=dict(stages=[st(0, fuzz="FuzzJsonSafeArray", fuzztime="60s", timeout=600), st(80000, shards=8, run="TestJsonSafeArray|TestRunnerInProcess", timeout=3500), st(30000, shards=8, run="TestRunnerChildProcess|TestRunnerHistoryOneProcess", timeout=3500)]),
    ),
    "C09": dict(
        pkg="c09", level="translation_validation",
        rule="exhaustive over the finite set: every generated file of the working tree (6 genny outputs + one wrapper per OW-SPEC block found by an independent YAML scan of models/**) is deleted in a scratch copy, regenerated with genny (built from the module cache) and ow-specgen (built from the tree) and compared byte-for-byte; generated files without a directive/spec and specs without a file are failures; "
             "every spec block is compared with sim.Catalog and Description() (parameter names, defaults, ranges, dimensions; inputs, states, outputs in spec order) through a YAML reading that does not use the generator's code; "
             "plus the invocations of ow-specgen a developer types, enumerated (the whole tree and every directory in glob order and reversed, every spec file followed by the next one; thorough tier: every ordered pair of spec files) and rapid-drawn subsets and orders of 1..all spec files handed to one invocation (and of genny directives): the output must not depend on them. Every file / spec block counts as non-trivial; distinct = file path / model name / invocation",
        assumptions=["genny is built from the module cache at the version go.sum pins", "the comparison is of files, not of behaviour: it shows the checked-in code is the generators' output, so the template-level results of C04/C05 apply to all 41 wrappers and 8 element types"],
        quick=dict(stages=[st(8, timeout=900)]),
        thorough=dict(stages=[st(120, shards=8, timeout=3000)]),
    ),
    "C08": dict(
        require={'load:step>1': 0.03, 'non-contiguous-source-view': 0.05, 'load:reused-selection-object': 0.01, 'writeSlice': 0.03, '__nontrivial__': 0.2},
        pkg="c08", level="exploration",
        overlay=dict(inject={"io/zz_verif_export.go": "harness/overlays/io_export.go"}),
        rule="rapid-generated histories of 1-25 operations over two files in the HDF5 stand-in: Create (new / same shape / different shape / with compression), Write of a generated source view (all 8 element types, Go- and C-backed, any layout), WriteSlice of a generated sub-array at a location, Load with Slice nil or per-dimension nil | [start, stop, step] (stop possibly beyond the extent, in one selection of eight far beyond it: 1000, 2^31-1, 2^31, 2^40, 2^62, MaxInt-1, MaxInt; step 1..4; one load in three hands over the very selection object an earlier load of the history used, as ow-sim does), Exists / Shape / GetDatasets / GetGroups; "
             "model = map path -> (type, shape, values); after every operation the raw bytes of every dataset (decoded independently) and a whole-dataset Load equal the model, Load(sel) has exactly the shape and elements of the in-memory slice start:min(stop,n):step, re-create leaves values unchanged and a different shape is refused, listings equal the model; lock probe at every stand-in call (TryLock must fail; for mutating calls TryRLock must fail); "
             "exhaustive enumeration of sliceSize / makeHyperslab over n<=12, all start, stop<=n+3 and the seven far stops, step<=5; concurrent workers each owning a dataset of one shared file (run under the race detector in the thorough tier); a self-check of the stand-in's selection against nested loops; LoadText of fixed-width string datasets placed by the stand-in (NUL-padded, or filling the width without a terminator) returns exactly the strings, and an error for numeric or missing datasets. "
             "Non-trivial = a load with step>1 or clipped stop, or a write whose source view is non-contiguous, or a selection triple with step>1 / clipped stop; distinct = distinct case",
        assumptions=["libhdf5 is not installed: a pure-Go stand-in (/verif/fakehdf5) with the binding's API, type table and raw-transfer rule is the trusted base; agreement with the real libhdf5 ABI (cgo type mapping, chunking/deflate, real error codes) cannot be executed here",
                     "empty selections and compress=true (refused by libhdf5 on a contiguous layout) are a separate class that must only leave everything else intact",
                     "Create ignoring its fillValue and WriteSlice swallowing the library's error are not flagged"],
        quick=dict(stages=[st(2000, run="TestRoundTripHistories|TestSelectionHelpersExhaustive|TestStandInSelfCheck|TestLoadText", timeout=900), st(300, run="TestConcurrentCallers", timeout=900), st(150, race=True, run="TestConcurrentCallers", timeout=900)]),
        thorough=dict(stages=[st(0, fuzz="FuzzRoundTripHistories", fuzztime="60s", timeout=600), st(70000, shards=12, run="TestRoundTripHistories|TestSelectionHelpersExhaustive|TestStandInSelfCheck|TestLoadText", timeout=3500), st(8000, shards=4, race=True, run="TestConcurrentCallers", timeout=3500)]),
    ),
    "C07": dict(
        require={'several-links-into-one-input': 0.03, 'empty-batch': 0.1, 'table-parameter-model:generation-without-the-longest-table': 0.03, '__nontrivial__': 0.15},
        pkg="owsim", level="exploration",
        overlay=dict(map_main={"cmd/ow-sim": "owsim"}),
        rule="rapid-generated layered model graphs over the HDF5 stand-in: 1-4 model types from a pool of 20 models whose kernels accept any non-negative input plus the two table-parameter models (RatingCurvePartition, Storage: tables of different lengths per node, padded in the parameter dataset; always with stored inputs and never a link destination because their kernels only accept inputs inside their tables), 1-5 generations, 0-4 nodes per (model, generation) including empty batches and models absent from generation 0, links only forward in generation order (several links into one input, fan-out), models with and without a stored inputs dataset, T=1..20, flags -overwrite (with a stale output file), -outputs-for/-no-outputs-for/-inputs-for/-no-inputs-for subsets, separate parameter / initial-state / time-series / final-state files, no output file, and delays injected at the stand-in's read / write calls; the real run_simulation is called in-process (sources mapped by -overlay); "
             "oracle: an independent sequential interpreter (generations in order; node input = stored input or zeros + sum of linked source outputs; each node run alone through the catalogue) compared bit-for-bit with /MODELS/<m>/{outputs,states,inputs} row by row, datasets present exactly when selected, and from the stand-in's call log every (model, generation, dataset) block written exactly once at its batch offset before run_simulation returns. "
             "Non-trivial = >= 2 generations and a link whose destination has a stored input or another incoming link, or a table-parameter model with a generation that does not hold its longest table; distinct = distinct graph",
        assumptions=["HDF5 stand-in (see C08) is the trusted base", "-outputs model=file (ow-sim re-executes its binary as a -writer sub-process fed through protobuf; here the test binary serves that role) is exercised in one case of eight that has an output file, for models with nodes in the last generation (otherwise ow-sim never closes the writer pipe); final states of a split model are not part of the stream and are not asserted", "the /LINKS dataset always exists (possibly with zero rows)"],
        quick=dict(stages=[st(25, shards=8, run="TestSimulationEqualsSequentialReference", timeout=900, env={"VERIF_PROPERTY": "C07"})]),
        thorough=dict(stages=[st(1000, shards=16, run="TestSimulationEqualsSequentialReference", timeout=3500, env={"VERIF_PROPERTY": "C07"})]),
    ),
    "C05": dict(
        require={'__nontrivial__': 0.3},
        pkg="c05", level="exploration",
        rule="built with the Go race detector (halt on first report): (1) rapid-generated vectorised-Run cases as in C04 with 2..24 cells (thorough 48) over the whole catalogue, GOMAXPROCS drawn from {1,2,3,4,8,16}, each case run 3 times and every repetition compared bit-for-bit with the sequential cell-by-cell reference, and after each Run has returned no goroutine created by a model's Run may still be alive (a cell that was not joined); plus the 18 boundary cell counts 31..4097 once each; "
             "(2) rapid-generated ow-sim graphs as in C07, 2-3 repetitions each, GOMAXPROCS drawn, delays injected separately at writer-side (mutating) and main-loop (read) calls of the HDF5 stand-in, every repetition compared with the sequential graph interpreter. "
             "Non-trivial = >= 2 cells (resp. >= 2 model types and >= 2 non-empty generations with an output file); distinct = distinct case",
        assumptions=["the race detector reports unsynchronised conflicting accesses on the executions that happened; this is exploration of schedules (GOMAXPROCS, injected delays, repetition), not enumeration"],
        quick=dict(stages=[st(200, race=True, timeout=900),
                           st(8, shards=6, race=True, pkg="owsim", overlay=dict(map_main={"cmd/ow-sim": "owsim"}), run="TestGraphExecutionRaceFree", timeout=900, env={"VERIF_PROPERTY": "C05"})]),
        thorough=dict(stages=[st(2400, shards=10, race=True, timeout=3500),
                              st(400, shards=6, race=True, pkg="owsim", overlay=dict(map_main={"cmd/ow-sim": "owsim"}), run="TestGraphExecutionRaceFree", timeout=3000, env={"VERIF_PROPERTY": "C05"})]),
    ),
}
