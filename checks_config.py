"""Per-property configuration of ./check.  A tier is a list of stages; a stage runs the
property's test binary (optionally built with -race) on `shards` processes with
`checks` rapid cases per rapid test."""

def st(checks, shards=1, **kw):
    d = dict(checks=checks, shards=shards)
    d.update(kw)
    return d

CHECKS = {
    "C19": dict(
        pkg="c19", level="exploration",
        rule="exhaustive: every start date of the 400-year cycle 1600-01-01..1999-12-31 run for 3 steps (one evaluation per start date), "
             "12 whole-cycle runs of 146463 steps, plus rapid-drawn (start date in years 1..9999, 1-4 consecutive start dates, run length) windows; "
             "oracle = Go time.AddDate (proleptic Gregorian): day, month, year, YearDay. Non-trivial = the window contains a month end, 29 Feb or a century year; distinct = distinct start date / case",
        assumptions=["Go's time package implements the proleptic Gregorian calendar correctly"],
        quick=dict(stages=[st(2000, timeout=300)]),
        thorough=dict(stages=[st(15000, shards=16, timeout=1500)]),
    ),
}
