package c04

import (
	"fmt"
	"testing"

	"github.com/flowmatters/openwater-core/data"
	"pgregory.net/rapid"
	"verif/harness/pbt"
	"verif/harness/simref"
	"verif/harness/vrun"
)

func TestMain(m *testing.M) { pbt.Main(m, "C04") }

func TestVectorisedRunAllModels(t *testing.T) { pbt.Run(t, vrun.GenFor("", 1, 8), vrun.Check) }

// Every boundary cell count once, deterministically (the drawn cases only meet them now and then): three cheap
// stateful models, short series.  The cases are examples of the ordinary generator at a fixed seed.
func TestCellCountBoundaries(t *testing.T) {
	if pbt.ReplayDirect(t, vrun.Check) {
		return
	}
	if sh, _ := pbt.Shard(); sh != 0 {
		t.Skip("enumeration runs in shard 0 only")
	}
	for _, n := range vrun.BoundaryCounts {
		for k, model := range []string{"Lag", "Muskingum", "GR4J"} {
			c := rapid.Custom(vrun.GenExact(model, n)).Example(n*3 + k)
			if !pbt.Direct(t, c, vrun.Check) {
				return
			}
		}
	}
}

// Round-robin over the catalogue so that no model is starved (thorough tier).
func TestVectorisedRunPerModel(t *testing.T) {
	if !pbt.Thorough() && !pbt.ReplayOnly() {
		t.Skip("thorough only")
	}
	if pbt.ReplayOnly() {
		pbt.Run(t, vrun.GenFor("", 1, 8), vrun.Check)
		return
	}
	sh, n := pbt.Shard()
	for i, name := range simref.Names() {
		if i%n != sh {
			continue
		}
		name := name
		t.Run(name, func(t *testing.T) { pbt.Run(t, vrun.GenFor(name, 1, 8), vrun.Check) })
	}
}

// --- InitialiseStates(N): row i = the single-cell initial states of parameter set i mod P

type InitCase struct {
	Model string
	N     int
	Cells [][][]pbt.F
}

func genInit(t *rapid.T) InitCase {
	name := rapid.SampledFrom(simref.Names()).Draw(t, "model")
	if rapid.Bool().Draw(t, "custom") {
		name = rapid.SampledFrom([]string{"GR4J", "Lag"}).Draw(t, "cm")
	}
	c := InitCase{Model: name, N: rapid.IntRange(1, 8).Draw(t, "N")}
	P := vrun.Count(t, c.N, "P")
	for i := 0; i < P; i++ {
		c.Cells = append(c.Cells, vrun.FromCell(simref.DrawCell(t, name)))
	}
	return c
}

func checkInit(c InitCase) (r pbt.Result) {
	m := simref.New(c.Model)
	desc := m.Description()
	cells := make([]simref.Cell, len(c.Cells))
	for i := range cells {
		cells[i] = vrun.ToCell(c.Cells[i])
	}
	r.Label("init:" + c.Model)
	rows := make([][]float64, c.N)
	width := 0
	for i := range rows {
		rows[i] = simref.InitStates(c.Model, cells[i%len(cells)])
		if len(rows[i]) > width {
			width = len(rows[i])
		}
	}
	varying := false
	for i := range rows {
		if len(rows[i]) != len(rows[0]) {
			varying = true
		}
	}
	r.NonTrivial = c.N >= 2 && (len(cells) < c.N || varying)
	if varying {
		r.Label("state-widths-differ")
	}
	simref.Prepare(m, simref.ParamMatrix(desc, cells))
	var st data.ND2Float64
	perr := ""
	func() {
		defer func() {
			if e := recover(); e != nil {
				perr = fmt.Sprint(e)
			}
		}()
		st = m.InitialiseStates(c.N)
	}()
	if perr != "" {
		r.Failf("%s: InitialiseStates(%d) panicked: %s (state widths per cell: %v)", c.Model, c.N, perr, lens(rows))
		return
	}
	if st.Len(0) != c.N || st.Len(1) < width {
		r.Failf("%s: InitialiseStates(%d) has shape %v but the widest cell needs %d states (widths %v)", c.Model, c.N, st.Shape(), width, lens(rows))
		return
	}
	for i := 0; i < c.N; i++ {
		for j := 0; j < st.Len(1); j++ {
			w := 0.0
			if j < len(rows[i]) {
				w = rows[i][j]
			}
			if g := st.Get2(i, j); !simref.SameBits(g, w) {
				r.Failf("%s: InitialiseStates(%d)[%d,%d] = %v, the cell initialised alone gives %v (widths %v)", c.Model, c.N, i, j, g, w, lens(rows))
				return
			}
		}
	}
	return
}

func lens(r [][]float64) []int {
	l := make([]int, len(r))
	for i := range r {
		l[i] = len(r[i])
	}
	return l
}

func TestInitialiseStates(t *testing.T) { pbt.Run(t, genInit, checkInit) }

func FuzzVectorisedRun(f *testing.F) { pbt.Fuzz(f, vrun.GenFor("", 1, 8), vrun.Check) }
