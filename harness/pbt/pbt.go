// Package pbt is the shared plumbing of every check: it drives rapid, keeps the
// evidence counters (cases, non-trivial cases by the check's stated rule, distinct
// non-trivial cases, class histogram, samples, known-finding exclusions), writes a
// write-ahead copy of every case before it runs (so a crash in a goroutine still
// leaves a replayable case behind), stores the last (= smallest, after shrinking)
// failing case as a plain JSON replay file, and replays such a file without rapid.
//
// A check is a pair (gen, check): gen draws a JSON-serialisable case from rapid
// generators only; check is a pure function of the case and the code under test.
package pbt

import (
	"encoding/binary"
	"encoding/json"
	"fmt"
	"hash/fnv"
	"math"
	"os"
	"path/filepath"
	"runtime/debug"
	"sort"
	"strconv"
	"sync"
	"testing"
	"time"

	"pgregory.net/rapid"
)

// F is a float64 that survives JSON (non-finite values become strings).
type F float64

func (f F) MarshalJSON() ([]byte, error) {
	v := float64(f)
	switch {
	case math.IsNaN(v):
		return []byte(`"NaN"`), nil
	case math.IsInf(v, 1):
		return []byte(`"+Inf"`), nil
	case math.IsInf(v, -1):
		return []byte(`"-Inf"`), nil
	}
	return []byte(strconv.FormatFloat(v, 'g', -1, 64)), nil
}

func (f *F) UnmarshalJSON(b []byte) error {
	s := string(b)
	switch s {
	case `"NaN"`:
		*f = F(math.NaN())
		return nil
	case `"+Inf"`:
		*f = F(math.Inf(1))
		return nil
	case `"-Inf"`:
		*f = F(math.Inf(-1))
		return nil
	}
	v, err := strconv.ParseFloat(s, 64)
	*f = F(v)
	return err
}

func Fs(v []float64) []F {
	r := make([]F, len(v))
	for i, x := range v {
		r[i] = F(x)
	}
	return r
}

func Floats(v []F) []float64 {
	r := make([]float64, len(v))
	for i, x := range v {
		r[i] = float64(x)
	}
	return r
}

// Result is what a check returns for one case.
type Result struct {
	Fail       string   // non-empty: the property is violated on this case
	Known      string   // id of the known finding that fully explains Fail (then it is not a violation)
	Labels     []string // classes this case belongs to
	NonTrivial bool     // by the check's stated rule
	Key        string   // canonical key for distinctness; default: the case JSON
	Hit        []string // known findings whose predicate matched this case (excluded parts), even if nothing failed
}

func (r *Result) Label(l string) { r.Labels = append(r.Labels, l) }
func (r *Result) Failf(format string, a ...interface{}) {
	if r.Fail == "" {
		r.Fail = fmt.Sprintf(format, a...)
	}
}

type stats struct {
	mu          sync.Mutex
	evals       int
	nontriv     int
	hashes      map[uint64]struct{}
	classes     map[string]int
	samples     []json.RawMessage
	ntSamples   []json.RawMessage
	excluded    map[string]int
	violations  int
	tests       map[string]int
	extra       map[string]interface{}
	assumptions []string
	start       time.Time
}

var st = &stats{hashes: map[uint64]struct{}{}, classes: map[string]int{}, excluded: map[string]int{}, tests: map[string]int{}, extra: map[string]interface{}{}, start: time.Now()}

// SetExtra records an additional coverage key in the evidence (e.g. exhaustive).
func SetExtra(k string, v interface{}) {
	st.mu.Lock()
	st.extra[k] = v
	st.mu.Unlock()
}

func AddExtra(k string, n int) {
	st.mu.Lock()
	cur, _ := st.extra[k].(int)
	st.extra[k] = cur + n
	st.mu.Unlock()
}

func Assume(s string) {
	st.mu.Lock()
	st.assumptions = append(st.assumptions, s)
	st.mu.Unlock()
}

func envPath(name string) string { return os.Getenv(name) }

func hash64(b []byte) uint64 {
	h := fnv.New64a()
	h.Write(b)
	return h.Sum64()
}

func trunc(js []byte) json.RawMessage {
	if len(js) <= 1500 {
		return json.RawMessage(js)
	}
	q, _ := json.Marshal(string(js[:1500]) + "...(truncated)")
	return json.RawMessage(q)
}

// guard runs one check; a panic on the calling goroutine (code under test called directly) becomes a failure of
// that case, so that it is shrunk and saved like any other (a panic on another goroutine still kills the process
// and is attributed through the write-ahead file).
func guard[C any](check func(C) Result, c C) (r Result) {
	defer func() {
		if p := recover(); p != nil {
			st := string(debug.Stack())
			if len(st) > 1800 {
				st = st[:1800]
			}
			r = Result{Fail: fmt.Sprintf("panic while running the case: %v\n%s", p, st)}
		}
	}()
	return check(c)
}

// Record accounts one executed case.
func Record(test string, js []byte, r *Result) {
	st.mu.Lock()
	defer st.mu.Unlock()
	st.evals++
	st.tests[test]++
	seen := map[string]bool{}
	for _, l := range r.Labels { // a case counts once per class
		if !seen[l] {
			seen[l] = true
			st.classes[l]++
		}
	}
	for _, h := range r.Hit {
		st.excluded[h]++
	}
	if r.Known != "" {
		st.excluded[r.Known]++
	}
	if r.NonTrivial {
		st.nontriv++
		key := []byte(r.Key)
		if r.Key == "" {
			key = js
		}
		st.hashes[hash64(append([]byte(test+"|"), key...))] = struct{}{}
		if len(st.ntSamples) < 4 {
			st.ntSamples = append(st.ntSamples, trunc(js))
		}
	} else if len(st.samples) < 2 {
		st.samples = append(st.samples, trunc(js))
	}
	if r.Fail != "" && r.Known == "" {
		st.violations++
	}
}

type replayFile struct {
	Property string          `json:"property"`
	Test     string          `json:"test"`
	Fail     string          `json:"fail,omitempty"`
	Case     json.RawMessage `json:"case"`
}

var propertyID = "?"

func writeFile(path string, test string, js []byte, fail string) {
	if path == "" {
		return
	}
	b, _ := json.Marshal(replayFile{Property: propertyID, Test: test, Fail: fail, Case: js})
	tmp := path + ".tmp"
	if os.WriteFile(tmp, b, 0o644) == nil {
		os.Rename(tmp, path)
	}
}

// Run drives one (gen, check) pair: under rapid normally, or once on the case stored
// in $VERIF_REPLAY when that names a replay file for this test.
func Run[C any](t *testing.T, gen func(*rapid.T) C, check func(C) Result) {
	name := t.Name()
	if rp := envPath("VERIF_REPLAY"); rp != "" {
		b, err := os.ReadFile(rp)
		if err != nil {
			t.Fatalf("replay: %v", err)
		}
		var rf replayFile
		if err := json.Unmarshal(b, &rf); err != nil {
			t.Fatalf("replay: %v", err)
		}
		if rf.Test != name {
			t.Skip("replay file is for another test")
		}
		var c C
		if err := json.Unmarshal(rf.Case, &c); err != nil {
			t.Fatalf("replay: bad case: %v", err)
		}
		r := guard(check, c)
		Record(name, rf.Case, &r)
		if r.Fail != "" && r.Known == "" {
			t.Fatalf("REPLAY-FAIL %s", r.Fail)
		}
		if r.Fail != "" {
			t.Logf("replay: fails only inside known finding %s: %s", r.Known, r.Fail)
		}
		return
	}
	if !Regressions(t, check) {
		return
	}
	wal := envPath("VERIF_WAL")
	last := envPath("VERIF_LASTFAIL")
	if walD.f != nil { // an enumeration of this binary wrote the case file before: this test replaces it by rename
		walD.f.Close()
		walD.f, walD.max = nil, 0
	}
	rapid.Check(t, func(rt *rapid.T) {
		c := gen(rt)
		js, err := json.Marshal(c)
		if err != nil {
			rt.Fatalf("case not serialisable: %v", err)
		}
		writeFile(wal, name, js, "")
		r := guard(check, c)
		Record(name, js, &r)
		if r.Fail != "" && r.Known == "" {
			writeFile(last, name, js, r.Fail)
			rt.Fatalf("%s", r.Fail)
		}
	})
	if wal != "" {
		os.Remove(wal)
	}
}

// Fuzz drives the same (gen, check) pair from Go's native coverage-guided fuzzer: the fuzzer's bytes
// feed the rapid generators (rapid.MakeFuzz), so structured cases are mutated under coverage feedback.
// A failing case is stored as the usual JSON replay file (the native corpus entry is kept too).
func Fuzz[C any](f *testing.F, gen func(*rapid.T) C, check func(C) Result) {
	name := f.Name()
	last := envPath("VERIF_LASTFAIL")
	wal := envPath("VERIF_WAL")
	f.Fuzz(rapid.MakeFuzz(func(rt *rapid.T) {
		c := gen(rt)
		js, err := json.Marshal(c)
		if err != nil {
			rt.Fatalf("case not serialisable: %v", err)
		}
		if wal != "" {
			writeFile(fmt.Sprintf("%s.%d", wal, os.Getpid()), name, js, "")
		}
		r := guard(check, c)
		r.Labels = append(r.Labels, "native-fuzz")
		Record(name, js, &r)
		if r.Fail != "" && r.Known == "" {
			writeFile(last, name, js, r.Fail)
			rt.Fatalf("%s", r.Fail)
		}
	}))
}

// Regressions re-runs, before any search, the saved cases of earlier findings kept for this test under
// $VERIF_REGRESSIONS/<property>/ (the shrunk failing case of every repaired defect and of every seeded change that
// needed a strengthened check): a plain regression check, no generator involved.  Shard 0 only.
// Returns false when one of them fails (the test has then been failed and the replay file written).
func Regressions[C any](t *testing.T, check func(C) Result) bool {
	dir := envPath("VERIF_REGRESSIONS")
	if dir == "" || envPath("VERIF_REPLAY") != "" || envPath("VERIF_FUZZ") != "" {
		return true
	}
	if sh, _ := Shard(); sh != 0 {
		return true
	}
	files, _ := filepath.Glob(filepath.Join(dir, propertyID, "*.json"))
	sort.Strings(files)
	name := t.Name()
	for _, f := range files {
		b, err := os.ReadFile(f)
		if err != nil {
			continue
		}
		var rf replayFile
		if json.Unmarshal(b, &rf) != nil || rf.Test != name {
			continue
		}
		var c C
		if err := json.Unmarshal(rf.Case, &c); err != nil {
			t.Errorf("regression case %s does not fit this test's case type any more: %v", f, err)
			return false
		}
		writeFile(envPath("VERIF_WAL"), name, rf.Case, "")
		r := guard(check, c)
		r.Labels = append(r.Labels, "regression-case")
		Record(name, rf.Case, &r)
		if r.Fail != "" && r.Known == "" {
			msg := fmt.Sprintf("regression case %s fails again: %s", filepath.Base(f), r.Fail)
			writeFile(envPath("VERIF_LASTFAIL"), name, rf.Case, msg)
			t.Errorf("%s", msg)
			return false
		}
	}
	return true
}

// Direct accounts a case that did not come from rapid (exhaustive enumerations).
// It returns true when the case passed (or failed only inside a known finding).
func Direct[C any](t *testing.T, c C, check func(C) Result) bool {
	name := t.Name()
	js, _ := json.Marshal(c)
	walDirect(name, js) // a crash inside check (a panic in a cell goroutine cannot be recovered) is then attributable
	r := guard(check, c)
	Record(name, js, &r)
	if r.Fail != "" && r.Known == "" {
		writeFile(envPath("VERIF_LASTFAIL"), name, js, r.Fail)
		t.Errorf("%s", r.Fail)
		return false
	}
	return true
}

// walDirect keeps the write-ahead case file of an enumeration current with one positioned write per case
// (enumerations account millions of cases; the file is padded with spaces, which JSON readers ignore).
var walD struct {
	f   *os.File
	max int
}

// WriteAhead is walDirect for enumerations that call their check themselves.
func WriteAhead(test string, js []byte) { walDirect(test, js) }

func walDirect(test string, js []byte) {
	p := envPath("VERIF_WAL")
	if p == "" {
		return
	}
	if walD.f == nil {
		f, err := os.OpenFile(p, os.O_CREATE|os.O_TRUNC|os.O_WRONLY, 0o644)
		if err != nil {
			return
		}
		walD.f = f
	}
	b, _ := json.Marshal(replayFile{Property: propertyID, Test: test, Case: js})
	if len(b) > walD.max {
		walD.max = len(b)
	}
	for len(b) < walD.max {
		b = append(b, ' ')
	}
	walD.f.WriteAt(b, 0)
}

// ReplayDirect: in replay mode, re-run the stored case of an enumeration test (one that
// accounts its cases through Direct). Returns true when the binary is in replay mode
// (the enumeration itself is then skipped).
func ReplayDirect[C any](t *testing.T, check func(C) Result) bool {
	rp := envPath("VERIF_REPLAY")
	if rp == "" {
		return false
	}
	b, err := os.ReadFile(rp)
	if err != nil {
		t.Fatalf("replay: %v", err)
	}
	var rf replayFile
	if err := json.Unmarshal(b, &rf); err != nil {
		t.Fatalf("replay: %v", err)
	}
	if rf.Test != t.Name() {
		t.Skip("replay file is for another test")
	}
	var c C
	if err := json.Unmarshal(rf.Case, &c); err != nil {
		t.Fatalf("replay: bad case: %v", err)
	}
	r := guard(check, c)
	Record(t.Name(), rf.Case, &r)
	if r.Fail != "" && r.Known == "" {
		t.Fatalf("REPLAY-FAIL %s", r.Fail)
	}
	return true
}

// ReplayOnly reports whether the binary is in replay mode (enumerations skip themselves).
func ReplayOnly() bool { return envPath("VERIF_REPLAY") != "" }

// Tier is "quick" or "thorough".
func Tier() string {
	if os.Getenv("VERIF_TIER") == "thorough" {
		return "thorough"
	}
	return "quick"
}

func Thorough() bool { return Tier() == "thorough" }

// Shard returns (index, count) of this process among the parallel shards.
func Shard() (int, int) {
	i, _ := strconv.Atoi(os.Getenv("VERIF_SHARD"))
	n, _ := strconv.Atoi(os.Getenv("VERIF_SHARDS"))
	if n <= 0 {
		n = 1
	}
	return i, n
}

type part struct {
	Property    string                 `json:"property"`
	Evaluations int                    `json:"evaluations"`
	NonTrivial  int                    `json:"nontrivial"`
	Classes     map[string]int         `json:"classes"`
	Tests       map[string]int         `json:"tests"`
	Samples     []json.RawMessage      `json:"samples"`
	Excluded    map[string]int         `json:"excluded"`
	Violations  int                    `json:"violations"`
	Extra       map[string]interface{} `json:"extra"`
	Assumptions []string               `json:"assumptions"`
	WallS       float64                `json:"wall_s"`
	ExitCode    int                    `json:"exit_code"`
}

// Main is the TestMain body of every check package: run, then dump the partial
// evidence (the driver merges the shards into /verif/evidence/<ID>.json).
func Main(m *testing.M, id string) {
	propertyID = id
	code := m.Run()
	if p := envPath("VERIF_PART"); p != "" {
		if _, err := os.Stat(p); err == nil || os.Getenv("VERIF_FUZZ") != "" {
			p = fmt.Sprintf("%s.%d", p, os.Getpid()) // fuzz coordinator and workers each leave their own counters
		}
		st.mu.Lock()
		pt := part{Property: id, Evaluations: st.evals, NonTrivial: st.nontriv, Classes: st.classes, Tests: st.tests,
			Excluded: st.excluded, Violations: st.violations, Extra: st.extra, Assumptions: st.assumptions,
			WallS: time.Since(st.start).Seconds(), ExitCode: code}
		pt.Samples = append(pt.Samples, st.ntSamples...)
		pt.Samples = append(pt.Samples, st.samples...)
		hs := make([]uint64, 0, len(st.hashes))
		for h := range st.hashes {
			hs = append(hs, h)
		}
		st.mu.Unlock()
		sort.Slice(hs, func(i, j int) bool { return hs[i] < hs[j] })
		hb := make([]byte, 8*len(hs))
		for i, h := range hs {
			binary.LittleEndian.PutUint64(hb[8*i:], h)
		}
		os.WriteFile(p+".hashes", hb, 0o644)
		b, _ := json.Marshal(pt)
		os.WriteFile(p, b, 0o644)
	}
	os.Exit(code)
}
