package vrun

import (
	"encoding/binary"
	"math"
	"syscall"
	"unsafe"
)

// cmem: float64 buffer outside the Go heap, flush against a PROT_NONE page at its end.
type cmem struct {
	mapping []byte
	off, n  int
}

func newCMem(vals []float64) *cmem {
	const page = 4096
	size := len(vals) * 8
	pages := (size + page - 1) / page
	if pages == 0 {
		pages = 1
	}
	m, err := syscall.Mmap(-1, 0, (pages+1)*page, syscall.PROT_READ|syscall.PROT_WRITE, syscall.MAP_ANON|syscall.MAP_PRIVATE)
	if err != nil {
		panic(err)
	}
	if err := syscall.Mprotect(m[pages*page:], syscall.PROT_NONE); err != nil {
		panic(err)
	}
	c := &cmem{mapping: m, off: pages*page - size, n: len(vals)}
	for i, v := range vals {
		binary.LittleEndian.PutUint64(m[c.off+8*i:], math.Float64bits(v))
	}
	return c
}

func (c *cmem) ptr() unsafe.Pointer {
	if c.n == 0 {
		return unsafe.Pointer(&c.mapping[0])
	}
	return unsafe.Pointer(&c.mapping[c.off])
}

func (c *cmem) read() []float64 {
	r := make([]float64, c.n)
	for i := range r {
		r[i] = math.Float64frombits(binary.LittleEndian.Uint64(c.mapping[c.off+8*i:]))
	}
	return r
}

func (c *cmem) free() {
	syscall.Mprotect(c.mapping, syscall.PROT_READ|syscall.PROT_WRITE)
	syscall.Munmap(c.mapping)
}

// CMem is the exported handle on a float64 buffer outside the Go heap whose end is flush against
// an inaccessible page.
type CMem struct{ c *cmem }

func NewCMem(vals []float64) *CMem  { return &CMem{newCMem(vals)} }
func (m *CMem) Ptr() unsafe.Pointer { return m.c.ptr() }
func (m *CMem) Read() []float64     { return m.c.read() }
func (m *CMem) Free()               { m.c.free() }
