// Package vrun: generated vectorised-Run cases and their comparison with independent single-cell runs (shared by C04 and C05).
package vrun

import (
	"fmt"

	"github.com/flowmatters/openwater-core/data"
	"github.com/flowmatters/openwater-core/data/cdata"
	"pgregory.net/rapid"
	"verif/harness/pbt"
	"verif/harness/simref"
)

const sentinel = -777.25

type Case struct {
	Model      string
	N, T       int
	Cells      [][][]pbt.F        // P parameter sets
	Inputs     [][][]pbt.F        // B input blocks [nInputs][T]
	States     []simref.StateSpec // N state rows (own width each)
	ExtraCells int
	ExtraT     int
	ExtraState int
	CBacked    bool
}

func ToCell(c [][]pbt.F) simref.Cell {
	r := make(simref.Cell, len(c))
	for i := range c {
		r[i] = pbt.Floats(c[i])
	}
	return r
}

func FromCell(c simref.Cell) [][]pbt.F {
	r := make([][]pbt.F, len(c))
	for i := range c {
		r[i] = pbt.Fs(c[i])
	}
	return r
}

// count draws how many sets to supply for n cells: n, 1, a divisor, a number coprime with n, n-1.
func Count(t *rapid.T, n int, label string) int {
	opts := []int{n, n, 1}
	for d := 2; d < n; d++ {
		if n%d == 0 {
			opts = append(opts, d)
		}
	}
	for d := 2; d < n; d++ {
		if gcd(d, n) == 1 {
			opts = append(opts, d)
		}
	}
	if n > 1 {
		opts = append(opts, n-1)
	}
	return rapid.SampledFrom(opts).Draw(t, label)
}

func gcd(a, b int) int {
	for b != 0 {
		a, b = b, a%b
	}
	return a
}

// BoundaryCounts are the cell counts at which a wrapper that batches, caps or chunks its goroutines has its fencepost.
var BoundaryCounts = []int{31, 32, 33, 63, 64, 65, 127, 128, 129, 255, 256, 257, 1023, 1024, 1025, 4095, 4096, 4097}

// GenExact draws a short case with exactly n cells (few parameter sets and input blocks).
func GenExact(model string, n int) func(t *rapid.T) Case { return genWith(model, n, n, true) }

// GenFor draws a case for the named model ("" = any catalogued model) with 1..maxN cells.
func GenFor(model string, minN, maxN int) func(t *rapid.T) Case {
	return genWith(model, minN, maxN, false)
}

func genWith(model string, minN, maxN int, exact bool) func(t *rapid.T) Case {
	return func(t *rapid.T) Case {
		name := model
		if name == "" {
			name = rapid.SampledFrom(simref.Names()).Draw(t, "model")
			if rapid.IntRange(0, 7).Draw(t, "tableModel") == 0 {
				// the two models with table-valued (dimensioned) parameters would otherwise be 2 of 41
				name = rapid.SampledFrom([]string{"Storage", "RatingCurvePartition"}).Draw(t, "dimModel")
			}
		}
		maxT := 40
		c := Case{Model: name, N: rapid.IntRange(minN, maxN).Draw(t, "N"), T: rapid.IntRange(1, maxT).Draw(t, "T")}
		P := Count(t, c.N, "P")
		B := Count(t, c.N, "B")
		sizeClass := rapid.IntRange(0, 23).Draw(t, "sizeClass")
		if exact {
			sizeClass = -1
			c.T = rapid.IntRange(1, 4).Draw(t, "shortT")
			P = rapid.SampledFrom([]int{1, 2, 3}).Draw(t, "fewP")
			B = rapid.SampledFrom([]int{1, 2}).Draw(t, "fewB")
		}
		switch sizeClass { // interior values of the range: rapid favours its ends
		case 11, 12:
			// many cells (counts around powers of two: a wrapper that batches or caps its goroutines has its
			// fencepost there); few parameter sets and input blocks, short series
			c.N = rapid.SampledFrom([]int{31, 32, 33, 34, 63, 64, 65, 100, 128, 129, 130, 255, 256, 257}).Draw(t, "manyN")
			if rapid.IntRange(0, 79).Draw(t, "veryMany") == 0 {
				c.N = rapid.SampledFrom([]int{1023, 1025, 4095, 4096, 4097, 4100}).Draw(t, "veryManyN")
			}
			c.T = rapid.IntRange(1, 6).Draw(t, "shortT")
			P = rapid.SampledFrom([]int{1, 2, 3, 5}).Draw(t, "fewP")
			B = rapid.SampledFrom([]int{1, 2, 3}).Draw(t, "fewB")
		case 13, 14, 16:
			// more parameter sets than cells: the extra sets are simply not used (they still size the tables)
			P = c.N + rapid.IntRange(1, 3).Draw(t, "moreP")
		case 15:
			// more input blocks than cells
			B = c.N + rapid.IntRange(1, 3).Draw(t, "moreB")
		}
		cells := make([]simref.Cell, P)
		for i := range cells {
			cells[i] = simref.DrawCell(t, name)
		}
		if name == "RatingCurvePartition" {
			commonRange(cells)
		}
		for i := range cells {
			c.Cells = append(c.Cells, FromCell(cells[i]))
		}
		for b := 0; b < B; b++ {
			blk := simref.DrawInputs(t, name, cells[b%P], c.T)
			fb := make([][]pbt.F, len(blk))
			for i := range blk {
				fb[i] = pbt.Fs(blk[i])
			}
			c.Inputs = append(c.Inputs, fb)
		}
		for i := 0; i < c.N; i++ {
			c.States = append(c.States, simref.DrawStates(t, name, cells[i%P]))
		}
		if rapid.IntRange(0, 2).Draw(t, "bigger") == 0 {
			c.ExtraCells = rapid.IntRange(0, 2).Draw(t, "xc")
			c.ExtraT = rapid.IntRange(0, 3).Draw(t, "xt")
		}
		c.ExtraState = rapid.SampledFrom([]int{0, 0, 0, 1, 3}).Draw(t, "xs")
		c.CBacked = rapid.IntRange(0, 3).Draw(t, "cbacked") == 0
		return c
	}
}

// commonRange rescales every cell's rating table to the same [first,last] range, so that an
// input block drawn for one cell is inside the table of every cell that reads it (outside the
// table the model is not defined: it panics).
func commonRange(cells []simref.Cell) {
	desc := simref.New("RatingCurvePartition").Description()
	ai := simref.ParamIndex(desc, "inputAmount")
	ref := cells[0][ai]
	lo, hi := ref[0], ref[len(ref)-1]
	for _, c := range cells[1:] {
		tab := c[ai]
		a, b := tab[0], tab[len(tab)-1]
		for k := range tab {
			tab[k] = lo + (tab[k]-a)*(hi-lo)/(b-a)
		}
		tab[0], tab[len(tab)-1] = lo, hi
	}
}

type buf struct {
	mem []float64
	c   *cmem
}

// arrays either over Go slices or over C memory (mmap'd, outside the Go heap)
func array3(vals []float64, d0, d1, d2 int, c bool) (data.ND3Float64, func() []float64, func()) {
	if !c {
		s := append([]float64(nil), vals...)
		return data.ArrayFromSliceFloat64(s, []int{d0, d1, d2}).(data.ND3Float64), func() []float64 { return s }, func() {}
	}
	m := newCMem(vals)
	return cdata.NewFloat64CArray(m.ptr(), []int{d0, d1, d2}).(data.ND3Float64), m.read, m.free
}

func array2(vals []float64, d0, d1 int, c bool) (data.ND2Float64, func() []float64, func()) {
	if !c {
		s := append([]float64(nil), vals...)
		return data.ArrayFromSliceFloat64(s, []int{d0, d1}).(data.ND2Float64), func() []float64 { return s }, func() {}
	}
	m := newCMem(vals)
	return cdata.NewFloat64CArray(m.ptr(), []int{d0, d1}).(data.ND2Float64), m.read, m.free
}

func Check(c Case) (r pbt.Result) {
	m := simref.New(c.Model)
	desc := m.Description()
	P, B := len(c.Cells), len(c.Inputs)
	cells := make([]simref.Cell, P)
	for i := range cells {
		cells[i] = ToCell(c.Cells[i])
	}
	nI, nO := len(desc.Inputs), len(desc.Outputs)
	r.Label("model:" + c.Model)
	tableLens := map[int]bool{}
	for _, cl := range cells {
		for i, p := range desc.Parameters {
			if len(p.Dimensions) > 0 {
				tableLens[len(cl[i])] = true
			}
		}
	}
	if c.N >= 2 && (P < c.N || B < c.N || len(tableLens) > 1) {
		r.NonTrivial = true
	}
	r.Key = fmt.Sprintf("%s|%d|%d|%d|%d|%d|%d|%v|%v", c.Model, c.N, P, B, c.T, c.ExtraCells, c.ExtraT, c.CBacked, c.Cells)
	if P < c.N {
		r.Label("P<N")
	}
	if B < c.N {
		r.Label("B<N")
	}
	if len(tableLens) > 1 {
		r.Label("table-lengths-differ")
	}
	if P > c.N {
		r.Label("P>N")
		r.NonTrivial = true
	}
	if B > c.N {
		r.Label("B>N")
	}
	if c.N >= 31 {
		r.Label("many-cells(>=31)")
		r.NonTrivial = true
	}
	if c.N >= 1023 {
		r.Label("very-many-cells(>=1023)")
	}
	if c.CBacked {
		r.Label("c-backed")
	}
	if c.ExtraCells+c.ExtraT > 0 {
		r.Label("outputs-larger-than-needed")
	}

	// --- reference: every cell alone -----------------------------------------
	width := 0
	resolved := make([][]float64, c.N)
	for i, s := range c.States {
		resolved[i] = s.Resolve(c.Model, cells[i%P])
		if len(resolved[i]) > width {
			width = len(resolved[i])
		}
	}
	width += c.ExtraState
	stateRows := make([][]float64, c.N)
	for i := range stateRows {
		row := make([]float64, width)
		copy(row, resolved[i])
		stateRows[i] = row
	}
	blocks := make([][][]float64, B)
	for b := range blocks {
		blocks[b] = make([][]float64, nI)
		for i := 0; i < nI; i++ {
			blocks[b][i] = pbt.Floats(c.Inputs[b][i])
		}
	}
	// the whole-file dimension (max table length over all cells) is what the drivers pass to
	// InitialiseDimensions; the single-cell reference uses the cell's own table padded to it
	refOut := make([][][]float64, c.N)
	refState := make([][]float64, c.N)
	for i := 0; i < c.N; i++ {
		// the cell alone has its own state row: its own width, without the padding a shared array needs
		st := append([]float64{}, resolved[i]...)
		refOut[i], refState[i] = simref.Run1(c.Model, cells[i%P], blocks[i%B], st)
	}

	// --- vectorised run ------------------------------------------------------
	pm := simref.ParamMatrix(desc, cells)
	pmRows := pm.Len(0)
	pmFlat := append([]float64(nil), pm.Unroll()...)
	parr, pread, pfree := array2(pmFlat, pmRows, P, c.CBacked)
	defer pfree()
	inFlat := make([]float64, 0, B*nI*c.T)
	for b := 0; b < B; b++ {
		for i := 0; i < nI; i++ {
			inFlat = append(inFlat, blocks[b][i]...)
		}
	}
	iarr, iread, ifree := array3(inFlat, B, nI, c.T, c.CBacked)
	defer ifree()
	stFlat := make([]float64, 0, c.N*width)
	for i := 0; i < c.N; i++ {
		stFlat = append(stFlat, stateRows[i]...)
	}
	sarr, sread, sfree := array2(stFlat, c.N, width, c.CBacked)
	defer sfree()
	oN, oT := c.N+c.ExtraCells, c.T+c.ExtraT
	outFlat := make([]float64, oN*nO*oT)
	for ci := 0; ci < oN; ci++ {
		for o := 0; o < nO; o++ {
			for k := 0; k < oT; k++ {
				if ci >= c.N || k >= c.T {
					outFlat[(ci*nO+o)*oT+k] = sentinel
				}
			}
		}
	}
	oarr, oread, ofree := array3(outFlat, oN, nO, oT, c.CBacked)
	defer ofree()

	simref.Prepare(m, parr)
	m.Run(iarr, sarr, oarr)

	got := oread()
	for ci := 0; ci < oN; ci++ {
		for o := 0; o < nO; o++ {
			for k := 0; k < oT; k++ {
				g := got[(ci*nO+o)*oT+k]
				if ci >= c.N || k >= c.T {
					if g != sentinel {
						r.Failf("%s: output[cell %d, %s, t %d] outside the run region was overwritten with %v", c.Model, ci, desc.Outputs[o], k, g)
						return
					}
					continue
				}
				if w := refOut[ci][o][k]; !simref.SameBits(g, w) {
					r.Failf("%s N=%d P=%d B=%d T=%d: output[cell %d, %s, t %d] = %v, the cell run alone (param set %d, input block %d) gives %v",
						c.Model, c.N, P, B, c.T, ci, desc.Outputs[o], k, g, ci%P, ci%B, w)
					return
				}
			}
		}
	}
	gs := sread()
	for i := 0; i < c.N; i++ {
		for j := 0; j < width; j++ {
			g := gs[i*width+j]
			if j >= len(refState[i]) {
				// padding of a row narrower than the array (cells with fewer states, extra columns): untouched
				if !simref.SameBits(g, 0) {
					r.Failf("%s N=%d P=%d B=%d: state[cell %d, %d] beyond the cell's own %d states was changed to %v", c.Model, c.N, P, B, i, j, len(refState[i]), g)
					return
				}
				continue
			}
			if w := refState[i][j]; !simref.SameBits(g, w) {
				r.Failf("%s N=%d P=%d B=%d: final state[cell %d, %d] = %v, the cell run alone gives %v (row width %d, cell's own %d)", c.Model, c.N, P, B, i, j, g, w, width, len(refState[i]))
				return
			}
		}
	}
	if d := simref.DiffBits("inputs", iread(), inFlat); d != "" {
		r.Failf("%s: Run modified its inputs: %s", c.Model, d)
		return
	}
	if d := simref.DiffBits("parameters", pread(), pmFlat); d != "" {
		r.Failf("%s: Run modified its parameters: %s", c.Model, d)
		return
	}
	return
}
