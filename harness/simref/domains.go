package simref

import (
	"math"
	"sort"

	"github.com/flowmatters/openwater-core/sim"
	"pgregory.net/rapid"
)

// Names returns the catalogue in sorted order.
func Names() []string {
	n := []string{}
	for k := range sim.Catalog {
		n = append(n, k)
	}
	sort.Strings(n)
	return n
}

// Stateful lists the models with at least one state.
func Stateful() []string {
	r := []string{}
	for _, n := range Names() {
		if len(New(n).Description().States) > 0 {
			r = append(r, n)
		}
	}
	return r
}

func u(t *rapid.T, lo, hi float64, label string) float64 {
	return rapid.Float64Range(lo, hi).Draw(t, label)
}

// logU draws log-uniformly in [lo,hi] (lo > 0).
func logU(t *rapid.T, lo, hi float64, label string) float64 {
	return math.Exp(rapid.Float64Range(math.Log(lo), math.Log(hi)).Draw(t, label))
}

func pick(t *rapid.T, label string, vs ...float64) float64 {
	return rapid.SampledFrom(vs).Draw(t, label)
}

// IncreasingTable draws n strictly increasing values starting at first.
func IncreasingTable(t *rapid.T, n int, first, maxStep float64, label string) []float64 {
	v := make([]float64, n)
	v[0] = first
	for i := 1; i < n; i++ {
		v[i] = v[i-1] + u(t, maxStep*0.01, maxStep, label)
	}
	return v
}

// DrawCell draws one parameter set of the model inside the domain in which the
// kernel is defined (documented ranges where the spec gives them, physically
// meaningful values otherwise).  The per-model entries are the single source of the
// input domain for every model check.
func DrawCell(t *rapid.T, name string) Cell {
	desc := New(name).Description()
	cell := make(Cell, len(desc.Parameters))
	set := func(p string, v ...float64) { cell[ParamIndex(desc, p)] = v }
	// generic default: spec range when given, else [0,10] with a few special values
	for i, p := range desc.Parameters {
		lo, hi := p.Range[0], p.Range[1]
		if hi <= lo {
			lo, hi = 0, 10
		}
		switch rapid.IntRange(0, 11).Draw(t, p.Name+".k") {
		case 0:
			cell[i] = []float64{lo}
		case 11:
			cell[i] = []float64{hi}
		case 5:
			// just inside a bound (a snap or a tolerance around the end of a range acts in a sliver next to it)
			d := (hi - lo) * math.Exp(rapid.Float64Range(math.Log(1e-9), math.Log(1e-3)).Draw(t, p.Name+".near"))
			if rapid.Bool().Draw(t, p.Name+".nearHi") {
				cell[i] = []float64{hi - d}
			} else {
				cell[i] = []float64{lo + d}
			}
		default:
			cell[i] = []float64{u(t, lo, hi, p.Name)}
		}
	}
	dt := func(p string) {
		set(p, pick(t, p, 86400, 86400, 3600, 21600, 43200))
	}
	switch name {
	case "GR4J":
		set("X1", logU(t, 1, 1500, "X1"))
		set("X2", u(t, -10, 5, "X2"))
		if rapid.IntRange(0, 3).Draw(t, "x2zero") == 0 {
			set("X2", 0)
		}
		set("X3", logU(t, 1, 500, "X3"))
		set("X4", DrawX4(t))
	case "Lag":
		set("timeLag", float64(rapid.IntRange(0, 12).Draw(t, "lag")))
	case "Sacramento":
		// capacities: small ones matter most (a store of a few mm meets a storm of a hundred), and so do
		// very unequal pairs (the split of percolation between the two lower free-water stores)
		capy := func(p string, hi float64) {
			switch rapid.IntRange(0, 9).Draw(t, p+".k") {
			case 0, 1:
				set(p, 5)
			case 2:
				set(p, hi)
			default:
				set(p, logU(t, 5, hi, p))
			}
		}
		capy("uztwm", 125)
		capy("uzfwm", 75)
		capy("lztwm", 300)
		capy("lzfsm", 300)
		capy("lzfpm", 600)
		pctim := u(t, 0, 0.5, "pctim")
		set("pctim", pctim)
		set("adimp", u(t, 0, 0.9-pctim, "adimp"))
		set("ssout", u(t, 0, 2, "ssout"))
		set("uh1", u(t, 0.05, 1, "uh1"))
		if rapid.Bool().Draw(t, "noUH") {
			set("uh2", 0)
			set("uh3", 0)
			set("uh4", 0)
			set("uh5", 0)
		}
	case "Simhyd":
		set("baseflowCoefficient", u(t, 0, 1, "bc"))
		set("imperviousThreshold", u(t, 0, 5, "it"))
		set("infiltrationCoefficient", u(t, 0, 400, "ic"))
		set("infiltrationShape", u(t, 0, 10, "is"))
		set("interflowCoefficient", u(t, 0, 1, "ifc"))
		set("perviousFraction", u(t, 0, 1, "pf"))
		set("rainfallInterceptionStoreCapacity", u(t, 0, 5, "risc"))
		set("rechargeCoefficient", u(t, 0, 1, "rc"))
		set("soilMoistureStoreCapacity", u(t, 1, 500, "smsc"))
	case "Surm":
		set("bfac", u(t, 0, 1, "bfac"))
		set("coeff", u(t, 0, 400, "coeff"))
		set("dseep", u(t, 0, 1, "dseep"))
		set("fcFrac", u(t, 0, 1, "fcFrac"))
		set("fimp", u(t, 0, 1, "fimp"))
		set("rfac", u(t, 0, 1, "rfac"))
		set("smax", u(t, 10, 500, "smax")) // below 10 mm the ET term 10*S/smax is not bounded by the store itself
		set("sq", u(t, 0, 10, "sq"))
		set("thres", u(t, 0, 50, "thres"))
	case "RunoffCoefficient":
		set("coeff", u(t, 0, 1, "coeff"))
	case "StorageRouting":
		set("InflowBias", 0)
		set("RoutingConstant", logU(t, 1, 1e6, "k"))
		m := u(t, 0.3, 1, "m")
		switch rapid.IntRange(0, 7).Draw(t, "mone") {
		case 0, 7:
			m = 1
		case 3:
			m = 1 - math.Exp(rapid.Float64Range(math.Log(1e-6), math.Log(5e-3)).Draw(t, "mnear")) // just below the linear case
		}
		set("RoutingPower", m)
		set("area", pick(t, "area", 0, 0, 1e3, 1e5))
		set("deadStorage", 0)
		dt("DeltaT")
	case "Muskingum":
		d := pick(t, "dt", 86400, 3600, 43200)
		x := u(t, 0, 0.5, "X")
		// stable region 2KX <= dt <= 2K(1-X)
		lo, hi := d/(2*(1-x)), 1e7
		if x > 0 {
			hi = d / (2 * x)
		}
		if hi > 2e5 {
			hi = 2e5
		}
		if lo > hi {
			lo = hi
		}
		set("K", u(t, lo, hi, "K"))
		set("X", x)
		set("DeltaT", d)
	case "LumpedConstituentRouting":
		set("pointInput", pick(t, "pi", 0, 0, 0.5, 3))
		dt("DeltaT")
	case "ConstituentDecay":
		set("halfLife", pick(t, "hl", 0, 0, 3600, 86400, 1e6))
		dt("DeltaT")
	case "InstreamCoarseSediment":
		dt("durationInSeconds")
	case "InstreamFineSediment":
		set("bankFullFlow", pick(t, "bff", 0, 0, 1, 10, 50))
		set("fineSedSettVelocityFlood", logU(t, 1e-7, 1e-3, "vsf"))
		set("floodPlainArea", pick(t, "fpa", 0, 1e4, 1e6))
		set("linkWidth", u(t, 1, 50, "w"))
		set("linkLength", u(t, 100, 20000, "l"))
		set("linkSlope", logU(t, 1e-4, 0.05, "s"))
		set("bankHeight", u(t, 0.5, 10, "bh"))
		set("propBankHeightForFineDep", u(t, 0, 1, "pbh"))
		set("sedBulkDensity", u(t, 1, 2, "sbd"))
		set("manningsN", u(t, 0.02, 0.1, "n"))
		set("fineSedSettVelocity", logU(t, 1e-7, 1e-2, "vs"))
		set("fineSedReMobVelocity", logU(t, 1e-7, 1e-2, "vr"))
		dt("durationInSeconds")
	case "InstreamParticulateNutrient":
		set("particulateNutrientConcentration", u(t, 0, 1, "pnc"))
		set("soilPercentFine", u(t, 0, 100, "spf"))
		dt("durationInSeconds")
	case "InstreamDissolvedNutrientDecay":
		set("doDecay", pick(t, "dd", 0, 1))
		set("pointSourceLoad", pick(t, "ps", 0, 0, 0.01, 2))
		set("linkHeight", u(t, 0.5, 10, "lh"))
		set("linkWidth", u(t, 1, 50, "lw"))
		set("linkLength", u(t, 100, 20000, "ll"))
		set("uptakeVelocity", logU(t, 1e-8, 1e-3, "uv"))
		dt("durationInSeconds")
	case "StorageParticulateTrapping":
		dt("DeltaT")
		set("reservoirCapacity", logU(t, 1e3, 1e9, "cap"))
		set("reservoirLength", pick(t, "len", 0, 100, 5000, 50000))
		set("subtractor", pick(t, "sub", 112, 100, 50))
		set("multiplier", pick(t, "mul", 800, 100, 0))
		set("lengthDischargeFactor", logU(t, 1e-3, 1e3, "ldf"))
		set("lengthDischargePower", u(t, -0.5, -0.05, "ldp"))
	case "StorageDissolvedDecay":
		dt("DeltaT")
		set("doStorageDecay", pick(t, "dsd", 0, 1))
		set("bankFullFlow", pick(t, "bff", 0, 5, 50))
		set("medianFloodResidenceTime", pick(t, "mfrt", 0, 1, 3, 10))
	case "Storage":
		DrawStorageCell(t, desc, cell)
	case "RatingCurvePartition":
		n := rapid.IntRange(2, 6).Draw(t, "nPts")
		if rapid.IntRange(0, 19).Draw(t, "longTable") == 7 {
			n = rapid.SampledFrom([]int{31, 32, 33, 64, 65, 100}).Draw(t, "nLong")
		}
		set("nPts", float64(n))
		set("inputAmount", IncreasingTable(t, n, pick(t, "first", 0, 0, 1), 20, "amt")...)
		pr := make([]float64, n)
		for i := range pr {
			pr[i] = u(t, 0, 1, "prop")
		}
		set("proportion", pr...)
	case "DateGenerator":
		y := rapid.IntRange(1, 3000).Draw(t, "y")
		m := rapid.IntRange(1, 12).Draw(t, "m")
		set("startYear", float64(y))
		set("startMonth", float64(m))
		set("startDate", float64(rapid.IntRange(1, 28).Draw(t, "d")))
	case "DepthToRate":
		dt("DeltaT")
		set("area", pick(t, "area", 0, 1, 1e4, 2.5e6))
	case "BankErosion":
		set("riparianVegPercent", u(t, 0, 100, "rv"))
		set("maxRiparianVegEffectiveness", u(t, 0, 100, "mrv"))
		set("soilErodibility", u(t, 0, 100, "se"))
		set("bankErosionCoeff", logU(t, 1e-6, 1e-3, "bec"))
		set("linkSlope", logU(t, 1e-4, 0.05, "ls"))
		set("bankFullFlow", u(t, 0, 100, "bff"))
		set("bankMgtFactor", u(t, 0, 1, "bmf"))
		set("sedBulkDensity", u(t, 1, 2, "sbd"))
		set("bankHeight", u(t, 0.5, 10, "bh"))
		set("linkLength", u(t, 100, 20000, "ll"))
		set("dailyFlowPowerFactor", u(t, 0.5, 2, "dfp"))
		set("longTermAvDailyFlow", pick(t, "lta", 0, 1e4, 1e6))
		set("soilPercentFine", u(t, 0, 100, "spf"))
		dt("durationInSeconds")
	case "DynamicSednetGully", "DynamicSednetGullyAlt":
		set("YearDisturbance", float64(rapid.IntRange(1990, 2005).Draw(t, "yd")))
		set("GullyEndYear", float64(rapid.IntRange(1995, 2015).Draw(t, "ge")))
		set("Area", logU(t, 1e3, 1e8, "area"))
		set("GullyPercentFine", u(t, 0, 100, "gpf"))
		set("managementPracticeFactor", u(t, 0, 1, "mpf"))
		set("longtermRunoffFactor", pick(t, "lrf", 0, 0.5, 3))
		set("dailyRunoffPowerFactor", pick(t, "drp", 0, 1, 1.4))
		set("sdrFine", u(t, 0, 100, "sdrf"))
		set("sdrCoarse", u(t, 0, 100, "sdrc"))
		set("timeStepInSeconds", 86400)
		set("GullyAnnualAverageSedimentSupply", u(t, 0, 1e4, "gas"))
	case "USLEFineSedimentGeneration":
		set("area", logU(t, 1e3, 1e8, "area"))
		set("timeStepInSeconds", 86400)
		set("Alpha", u(t, 0, 1, "alpha"))
		set("Eta", u(t, 0.1, 1, "eta"))
		set("maxConc", pick(t, "mc", 0, 10, 1000, 10000))
	case "ClimateVariables":
		set("elevation", u(t, 0, 10000, "elev"))
	}
	return cell
}

// DrawX4 forces every unit-hydrograph length class: ceil(x4) = 1..4, ceil(2*x4) = 1..8,
// and values just below / at / above integers and half-integers.
func DrawX4(t *rapid.T) float64 {
	switch rapid.IntRange(0, 3).Draw(t, "x4kind") {
	case 0:
		return u(t, 0.5, 4, "x4")
	case 1:
		h := float64(rapid.IntRange(1, 8).Draw(t, "x4half")) / 2
		return h
	case 2:
		h := float64(rapid.IntRange(1, 8).Draw(t, "x4half")) / 2
		e := pick(t, "x4eps", 1e-9, 1e-6, 1e-3, 0.01)
		if rapid.Bool().Draw(t, "below") && h-e >= 0.5 {
			return h - e
		}
		if h+e <= 4 {
			return h + e
		}
		return h
	default:
		// uniform over the class index so that short and long hydrographs are equally likely
		c := rapid.IntRange(1, 8).Draw(t, "x4class") // ceil(2*x4) = c
		lo, hi := float64(c-1)/2, float64(c)/2
		if lo < 0.5 {
			lo = 0.5
		}
		return u(t, lo, hi, "x4in")
	}
}

// DrawStorageCell draws monotone level-volume-area tables and release curves with
// minRelease <= maxRelease, zero release and area at zero volume, and release slopes
// small enough that the model's own minimum sub-timestep (6 s) can follow them.
func DrawStorageCell(t *rapid.T, desc sim.ModelDescription, cell Cell) {
	set := func(p string, v ...float64) { cell[ParamIndex(desc, p)] = v }
	n := rapid.IntRange(2, 6).Draw(t, "nLVA")
	if rapid.IntRange(0, 19).Draw(t, "longTable") == 7 {
		n = rapid.SampledFrom([]int{31, 32, 33, 64, 65, 100}).Draw(t, "nLong") // a search that switches strategy by table size
	}
	set("DeltaT", pick(t, "dt", 86400, 86400, 3600, 21600))
	set("nLVA", float64(n))
	vol := IncreasingTable(t, n, 0, logU(t, 1e4, 1e7, "volstep"), "vol")
	lev := IncreasingTable(t, n, 0, 5, "lev")
	area := make([]float64, n)
	maxR := make([]float64, n)
	minR := make([]float64, n)
	for i := 1; i < n; i++ {
		area[i] = area[i-1] + u(t, 0, vol[i]-vol[i-1], "area")/2 // mean depth >= 2 m per table segment
		slope := logU(t, 1e-7, 1e-4, "relslope")                 // (m3/s) per m3
		maxR[i] = maxR[i-1] + slope*(vol[i]-vol[i-1])
		minR[i] = u(t, 0, 1, "minfrac") * maxR[i]
		if minR[i] < minR[i-1] {
			minR[i] = minR[i-1]
		}
		if rapid.IntRange(0, 2).Draw(t, "nomin") == 0 {
			minR[i] = minR[i-1]
		}
	}
	set("volumes", vol...)
	set("levels", lev...)
	set("areas", area...)
	set("minRelease", minR...)
	set("maxRelease", maxR...)
}

// Series draws a non-negative forcing series: zeros (dry spells), exponential bulk,
// heavy-tailed storms, constants, ramps, pulses, exact repeats.
func Series(t *rapid.T, n int, scale float64, label string) []float64 {
	v := make([]float64, n)
	kind := rapid.IntRange(0, 8).Draw(t, label+".kind")
	pDry := rapid.Float64Range(0, 0.9).Draw(t, label+".pdry")
	switch kind {
	case 0: // constant
		c := u(t, 0, scale, label+".c")
		for i := range v {
			v[i] = c
		}
	case 1: // all zero
	case 2: // single pulse
		v[rapid.IntRange(0, n-1).Draw(t, label+".at")] = u(t, 0, 10*scale, label+".p")
	case 3: // ramp
		a := u(t, 0, scale, label+".a")
		for i := range v {
			v[i] = a * float64(i) / float64(n)
		}
	case 7, 8: // regimes: runs of constant forcing (a wet season fills every store, then a dry one drains them)
		i := 0
		for i < n {
			l := rapid.IntRange(1, 40).Draw(t, label+".run")
			c := 0.0
			switch rapid.IntRange(0, 3).Draw(t, label+".level") {
			case 1:
				c = u(t, 0, scale, label+".low")
			case 2, 3:
				c = scale * rapid.Float64Range(3, 60).Draw(t, label+".high")
			}
			for k := 0; k < l && i < n; k++ {
				v[i] = c
				i++
			}
		}
	default: // mixture
		i := 0
		for i < n {
			r := rapid.Float64Range(0, 1).Draw(t, label+".r")
			switch {
			case r < pDry: // dry spell
				l := rapid.IntRange(1, 8).Draw(t, label+".dry")
				i += l
			case r < pDry+(1-pDry)*0.15: // storm
				v[i] = scale * rapid.Float64Range(5, 60).Draw(t, label+".storm")
				i++
			case r < pDry+(1-pDry)*0.25 && i > 0: // exact repeat
				v[i] = v[i-1]
				i++
			default:
				v[i] = scale * math.Abs(math.Log(1-rapid.Float64Range(0, 0.999).Draw(t, label+".e")))
				i++
			}
		}
	}
	// forcing values below a millionth of the series scale are float artefacts, not data: snap them to zero
	for i := range v {
		if v[i] > 0 && v[i] < 1e-6*scale {
			v[i] = 0
		}
	}
	return v
}

// DrawInputs draws the input block of one cell ([nInputs][T]) inside the domain in
// which the kernel is defined for the given parameters.
func DrawInputs(t *rapid.T, name string, cell Cell, T int) [][]float64 {
	desc := New(name).Description()
	in := make([][]float64, len(desc.Inputs))
	for i, nm := range desc.Inputs {
		scale := 10.0
		switch nm {
		case "pet", "evap":
			scale = 4
		case "storage", "reachVolume", "storageVolume", "totalVolume":
			scale = 1e5
		case "humidity":
			scale = 30
		}
		in[i] = Series(t, T, scale, nm)
	}
	set := func(nm string, f func(k int) float64) {
		s := in[InputIndex(desc, nm)]
		for k := range s {
			s[k] = f(k)
		}
	}
	switch name {
	case "RatingCurvePartition":
		tab := cell[ParamIndex(desc, "inputAmount")]
		lo, hi := tab[0], tab[len(tab)-1]
		set("input", func(int) float64 {
			switch rapid.IntRange(0, 5).Draw(t, "rk") {
			case 0:
				return lo
			case 1:
				return hi
			case 2:
				return tab[rapid.IntRange(0, len(tab)-1).Draw(t, "knot")]
			}
			return u(t, lo, hi, "in")
		})
	case "VariablePartition":
		set("fraction", func(int) float64 { return u(t, 0, 1, "frac") })
	case "InstreamParticulateNutrient":
		set("floodplainDepositionFraction", func(int) float64 { return pick(t, "fpf", 0, 0, u(t, 0, 1, "f")) })
		set("channelDepositionFraction", func(int) float64 { return pick(t, "cdf", 0, u(t, 0, 1, "c"), -u(t, 0, 0.5, "c2")) })
	case "InstreamDissolvedNutrientDecay":
		set("floodplainDepositionFraction", func(int) float64 { return pick(t, "fpf", 0, 0, u(t, 0, 1, "f")) })
	case "ClimateVariables":
		set("dryBulb", func(int) float64 { return u(t, -40, 55, "T") })
		set("humidity", func(int) float64 { return u(t, 0.5, 100, "RH") })
	case "USLEFineSedimentGeneration":
		set("dayOfYear", func(k int) float64 { return float64(1 + (k+100)%365) })
		set("KLSC", func(int) float64 { return u(t, 0, 2, "klsc") })
		kl := in[InputIndex(desc, "KLSC")]
		set("KLSC_Fine", func(k int) float64 { return kl[k] * u(t, 0, 1, "ff") })
	case "DynamicSednetGully", "DynamicSednetGullyAlt":
		set("year", func(k int) float64 { return float64(1988 + rapid.IntRange(0, 30).Draw(t, "yr")) })
		set("AnnualRunoff", func(int) float64 { return pick(t, "ar", 0, 50, 400, 1200) })
	case "Gate":
		set("trigger", func(int) float64 { return pick(t, "tr", 0, 0, 1, -1, 0.5) })
	case "PartitionDemand":
		set("demand", func(int) float64 { return pick(t, "dm", 0, -1, u(t, 0, 30, "d"), u(t, 0, 30, "d2")) })
	case "Storage":
		vols := cell[ParamIndex(desc, "volumes")]
		areas := cell[ParamIndex(desc, "areas")]
		maxR := cell[ParamIndex(desc, "maxRelease")]
		top := vols[len(vols)-1]
		dtv := cell[ParamIndex(desc, "DeltaT")][0]
		mode := rapid.IntRange(0, 3).Draw(t, "mode") // 0 balanced, 1 filling, 2 drawing down, 3 alternating
		set("inflow", func(k int) float64 {
			f := pick(t, "inf", 0, 0.01, 0.1, 0.5, 2)
			if mode == 2 || (mode == 3 && (k/5)%2 == 1) {
				f = pick(t, "inf2", 0, 0, 0.001)
			}
			return f * top / dtv
		})
		set("demand", func(k int) float64 {
			f := pick(t, "dem", 0, 0.5, 1, 3)
			if mode == 1 {
				f = 0
			}
			return f * maxR[len(maxR)-1]
		})
		_ = areas
		set("rainfall", func(int) float64 { return pick(t, "rn", 0, 0, 5, 80) })
		set("pet", func(int) float64 { return pick(t, "pt", 0, 2, 8) })
		set("targetMinimumVolume", func(int) float64 { return 0 })
		set("targetMinimumCapacity", func(int) float64 { return 0 })
	}
	return in
}

// StateSpec describes the initial state row of one cell without running any model
// code in the generator: the model's own initial states, the final states of a
// previous run on drawn inputs ("states produced by the model itself"), or (Storage)
// a directly drawn initial volume.  Resolve is called inside the check.
type StateSpec struct {
	Warm   [][]float64 `json:",omitempty"` // inputs of the warm-up run; nil = initial states
	Direct []float64   `json:",omitempty"`
}

func DrawStates(t *rapid.T, name string, cell Cell) StateSpec {
	desc := New(name).Description()
	if len(desc.States) == 0 {
		return StateSpec{}
	}
	k := rapid.IntRange(0, 2).Draw(t, "statekind")
	if name == "Storage" && k == 2 {
		vols := cell[ParamIndex(desc, "volumes")]
		return StateSpec{Direct: []float64{u(t, 0, 1.3*vols[len(vols)-1], "vol0"), 0, 0}}
	}
	if k == 0 {
		return StateSpec{}
	}
	T := rapid.IntRange(1, 15).Draw(t, "warmT")
	return StateSpec{Warm: DrawInputs(t, name, cell, T)}
}

func (s StateSpec) Resolve(name string, cell Cell) []float64 {
	if s.Direct != nil {
		return append([]float64(nil), s.Direct...)
	}
	if s.Warm == nil {
		return InitStates(name, cell)
	}
	_, st := Run1(name, cell, s.Warm, nil)
	return st
}

// Stormy rewrites a rainfall series so that it certainly contains a storm (> 20 mm) and, when long
// enough, a dry spell of at least 5 steps; used where a check's non-triviality rule asks for both.
func Stormy(t *rapid.T, rain []float64) {
	n := len(rain)
	if n == 0 {
		return
	}
	at := rapid.IntRange(0, n-1).Draw(t, "stormAt")
	rain[at] = rapid.Float64Range(25, 300).Draw(t, "stormMM")
	if n >= 12 {
		d := rapid.IntRange(0, n-6).Draw(t, "dryAt")
		for k := d; k < d+6; k++ {
			if k != at {
				rain[k] = 0
			}
		}
		if at >= d && at < d+6 { // keep both: move the storm just outside the spell
			rain[at] = 0
			if d > 0 {
				rain[d-1] = 60
			} else {
				rain[d+6] = 60
			}
		}
	}
}
