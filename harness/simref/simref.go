// Package simref holds what the model checks share: building parameter / input /
// state arrays the way the drivers do, running one cell alone through the catalogue
// (the reference for "independent single-cell run"), and comparison helpers.
package simref

import (
	"fmt"
	"math"

	"github.com/flowmatters/openwater-core/data"
	_ "github.com/flowmatters/openwater-core/models"
	"github.com/flowmatters/openwater-core/sim"
	"pgregory.net/rapid"
)

// Cell is one parameter set: one entry per parameter of the model description, in
// order; scalar parameters have one value, table parameters as many as the cell's
// own dimension value says.
type Cell [][]float64

func New(name string) sim.TimeSteppingModel {
	f := sim.Catalog[name]
	if f == nil {
		panic("unknown model " + name)
	}
	return f()
}

// dimIndex maps a dimension name to the index of the parameter that carries it.
func dimParamIndex(desc sim.ModelDescription, dim string) int {
	for i, p := range desc.Parameters {
		if p.Name == dim {
			return i
		}
	}
	return -1
}

// Rows returns, per parameter, how many rows of the parameter matrix it occupies
// given the maximum of every dimension parameter over the cells.
func Rows(desc sim.ModelDescription, cells []Cell) []int {
	rows := make([]int, len(desc.Parameters))
	for i, p := range desc.Parameters {
		n := 1
		for _, d := range p.Dimensions {
			di := dimParamIndex(desc, d)
			mx := 0
			for _, c := range cells {
				if v := int(c[di][0]); v > mx {
					mx = v
				}
			}
			n *= mx
		}
		rows[i] = n
	}
	return rows
}

// ParamMatrix lays the cells out as the drivers do: parameters down the rows
// (a table parameter takes max-dimension rows, unused tail zero), cells across.
func ParamMatrix(desc sim.ModelDescription, cells []Cell) data.ND2Float64 {
	rows := Rows(desc, cells)
	total := 0
	for _, r := range rows {
		total += r
	}
	pm := data.NewArray2DFloat64(total, len(cells))
	r0 := 0
	for i := range desc.Parameters {
		for c, cell := range cells {
			for k, v := range cell[i] {
				if k < rows[i] {
					pm.Set2(r0+k, c, v)
				}
			}
		}
		r0 += rows[i]
	}
	return pm
}

// Prepare does what every driver does before Run.
func Prepare(m sim.TimeSteppingModel, pm data.ND2Float64) {
	dims := m.FindDimensions(pm)
	if len(dims) > 0 {
		m.InitialiseDimensions(dims)
	}
	m.ApplyParameters(pm)
}

func Inputs3(blocks [][][]float64, nInputs, T int) data.ND3Float64 {
	in := data.NewArray3DFloat64(len(blocks), nInputs, T)
	for b := range blocks {
		for i := 0; i < nInputs; i++ {
			for t := 0; t < T; t++ {
				in.Set3(b, i, t, blocks[b][i][t])
			}
		}
	}
	return in
}

func States2(rows [][]float64, width int) data.ND2Float64 {
	s := data.NewArray2DFloat64(len(rows), width)
	for i, r := range rows {
		for j, v := range r {
			s.Set2(i, j, v)
		}
	}
	return s
}

// InitStates returns the model's own initial state row for one cell.
func InitStates(name string, cell Cell) []float64 {
	m := New(name)
	Prepare(m, ParamMatrix(m.Description(), []Cell{cell}))
	return Row(m.InitialiseStates(1), 0)
}

func Row(s data.ND2Float64, i int) []float64 {
	n := s.Len(1)
	r := make([]float64, n)
	for j := 0; j < n; j++ {
		r[j] = s.Get2(i, j)
	}
	return r
}

// Run1 runs one cell alone on a fresh model object. states nil = the model's own
// initial states. Returns outputs [nOutputs][T] and the final state row.
func Run1(name string, cell Cell, inputs [][]float64, states []float64) ([][]float64, []float64) {
	m := New(name)
	desc := m.Description()
	Prepare(m, ParamMatrix(desc, []Cell{cell}))
	var st data.ND2Float64
	if states == nil {
		st = m.InitialiseStates(1)
	} else {
		st = States2([][]float64{states}, len(states))
	}
	T := 0
	if len(inputs) > 0 {
		T = len(inputs[0])
	}
	in := Inputs3([][][]float64{inputs}, len(desc.Inputs), T)
	out := sim.InitialiseOutputs(m, T, 1)
	m.Run(in, st, out)
	res := make([][]float64, len(desc.Outputs))
	for o := range res {
		res[o] = make([]float64, T)
		for t := 0; t < T; t++ {
			res[o][t] = out.Get3(0, o, t)
		}
	}
	return res, Row(st, 0)
}

// SameBits: bit-identical, NaN equal to NaN of the same payload class.
func SameBits(a, b float64) bool {
	if math.IsNaN(a) && math.IsNaN(b) {
		return true
	}
	return math.Float64bits(a) == math.Float64bits(b)
}

func DiffBits(what string, a, b []float64) string {
	if len(a) != len(b) {
		return fmt.Sprintf("%s: length %d vs %d", what, len(a), len(b))
	}
	for i := range a {
		if !SameBits(a[i], b[i]) {
			return fmt.Sprintf("%s[%d]: %v vs %v", what, i, a[i], b[i])
		}
	}
	return ""
}

// Close: |a-b| <= tol*(1+scale).
func Close(a, b, scale, tol float64) bool {
	if math.IsNaN(a) || math.IsNaN(b) {
		return false
	}
	return math.Abs(a-b) <= tol*(1+math.Abs(scale))
}

func Finite(v float64) bool { return !math.IsNaN(v) && !math.IsInf(v, 0) }

func Sum(v []float64) float64 {
	s := 0.0
	for _, x := range v {
		s += x
	}
	return s
}

func OutputIndex(desc sim.ModelDescription, name string) int {
	for i, o := range desc.Outputs {
		if o == name {
			return i
		}
	}
	panic("no output " + name)
}

func InputIndex(desc sim.ModelDescription, name string) int {
	for i, o := range desc.Inputs {
		if o == name {
			return i
		}
	}
	panic("no input " + name)
}

func ParamIndex(desc sim.ModelDescription, name string) int {
	for i, o := range desc.Parameters {
		if o.Name == name {
			return i
		}
	}
	panic("no parameter " + name)
}

// CellCase is one single-cell run, JSON-serialisable.
type CellCase struct {
	Model  string
	Cell   Cell
	Inputs [][]float64 // [nInputs][T]
	State  StateSpec
}

func (c CellCase) T() int {
	if len(c.Inputs) == 0 {
		return 0
	}
	return len(c.Inputs[0])
}

// RunOn runs one cell on an existing model object (re-applying the parameters, as a
// driver would) and reports whether the parameter and input arrays were left unchanged.
func RunOn(m sim.TimeSteppingModel, cell Cell, inputs [][]float64, states []float64) (out [][]float64, final []float64, touched string) {
	desc := m.Description()
	pm := ParamMatrix(desc, []Cell{cell})
	pm0 := append([]float64(nil), pm.Unroll()...)
	Prepare(m, pm)
	var st data.ND2Float64
	if states == nil {
		st = m.InitialiseStates(1)
	} else {
		st = States2([][]float64{states}, len(states))
	}
	T := 0
	if len(inputs) > 0 {
		T = len(inputs[0])
	}
	in := Inputs3([][][]float64{inputs}, len(desc.Inputs), T)
	in0 := append([]float64(nil), in.Unroll()...)
	o := sim.InitialiseOutputs(m, T, 1)
	m.Run(in, st, o)
	out = make([][]float64, len(desc.Outputs))
	for k := range out {
		out[k] = make([]float64, T)
		for t := 0; t < T; t++ {
			out[k][t] = o.Get3(0, k, t)
		}
	}
	if d := DiffBits("parameters", pm.Unroll(), pm0); d != "" {
		touched = d
	}
	if d := DiffBits("inputs", in.Unroll(), in0); d != "" {
		touched = d
	}
	return out, Row(st, 0), touched
}

// DiffOutputs compares two output sets bit-for-bit over the first n steps (n<0: all).
func DiffOutputs(desc sim.ModelDescription, a, b [][]float64, n int) string {
	for o := range a {
		m := len(a[o])
		if n >= 0 && n < m {
			m = n
		}
		for t := 0; t < m; t++ {
			if !SameBits(a[o][t], b[o][t]) {
				return fmt.Sprintf("output %s[t=%d]: %v vs %v", desc.Outputs[o], t, a[o][t], b[o][t])
			}
		}
	}
	return ""
}

// DrawCellCase draws a single-cell case of the model.
func DrawCellCase(t *rapid.T, name string, minT, maxT int) CellCase {
	cell := DrawCell(t, name)
	T := rapid.IntRange(minT, maxT).Draw(t, "T")
	if maxT >= 25 && rapid.IntRange(0, 399).Draw(t, "longSeries") == 211 {
		// a series long enough to cross a block size inside one Run (kernels that work in chunks)
		T = rapid.SampledFrom([]int{1023, 1025, 4095, 4096, 4097, 8193}).Draw(t, "longT")
	}
	return CellCase{Model: name, Cell: cell, Inputs: DrawInputs(t, name, cell, T), State: DrawStates(t, name, cell)}
}

// StorageRoutingSolverCanMiss reports whether, for one StorageRouting step with zero inflow bias,
// the model's own stopping constants (20 iterations, convergence limit 1e-8 m^3/s) cannot guarantee
// its mass-balance tolerance (1e-3 m^3): m < 1 and, at the root q* of q*dt + k*q^m + dead = water held
// (found here by 200 bisections on [0, bracket]), the residual slope s = dt + k*m*q*^(m-1) satisfies
// s*1e-8 > 1e-3 or s*bracket/2^20 > 1e-3. This is the predicate of the recorded finding
// "storage-routing-unconverged" (used by C11 and C06).
func StorageRoutingSolverCanMiss(k, m, dead, dt, prevS, inflow, lateral, netEvap float64) bool {
	if m >= 1 {
		return false
	}
	avail := math.Max(prevS, 0)/dt + inflow - netEvap
	bracket := avail + lateral
	held := prevS + (inflow+lateral-netEvap)*dt
	s := func(q float64) float64 {
		if q <= 0 {
			return dead
		}
		return k*math.Pow(q, m) + dead
	}
	lo, hi := 0.0, bracket
	for it := 0; it < 200; it++ {
		mid := 0.5 * (lo + hi)
		if mid*dt+s(mid)-held > 0 {
			hi = mid
		} else {
			lo = mid
		}
	}
	slope := dt + k*m*math.Pow(hi, m-1)
	return slope*1e-8 > 1e-3 || slope*bracket/(1<<20) > 1e-3
}
