package simref

import "math"

// GR4JRef is an independent implementation of the daily GR4J model written from
// Perrin, Michel & Andreassian (2003), "Improvement of a parsimonious model for
// streamflow simulation", J. Hydrol. 279, eqs. (1)-(21).  It shares no code with the
// repository.  State: production store S, routing store R, and the pending
// contributions of past effective rainfall to the next days' UH1 / UH2 outputs.
type GR4JRef struct {
	X1, X2, X3, X4 float64
	S, R           float64
	P9             []float64 // P9[k]: water already routed through UH1 that will arrive k days from now (k=0: today)
	P1             []float64
}

// sCurve1 / sCurve2: cumulative unit hydrographs SH1, SH2 (eqs. 9-15).
func sCurve1(t, x4 float64) float64 {
	switch {
	case t <= 0:
		return 0
	case t < x4:
		return math.Pow(t/x4, 2.5)
	}
	return 1
}

func sCurve2(t, x4 float64) float64 {
	switch {
	case t <= 0:
		return 0
	case t <= x4:
		return 0.5 * math.Pow(t/x4, 2.5)
	case t < 2*x4:
		return 1 - 0.5*math.Pow(2-t/x4, 2.5)
	}
	return 1
}

func NewGR4JRef(x1, x2, x3, x4 float64) *GR4JRef {
	n1 := int(math.Ceil(x4))
	n2 := int(math.Ceil(2 * x4))
	return &GR4JRef{X1: x1, X2: x2, X3: x3, X4: x4, P9: make([]float64, n1), P1: make([]float64, n2)}
}

// UH ordinates (eqs. 16-17): UH1(j) = SH1(j) - SH1(j-1), j = 1..n.
func (g *GR4JRef) UH1() []float64 {
	u := make([]float64, len(g.P9))
	for j := 1; j <= len(u); j++ {
		u[j-1] = sCurve1(float64(j), g.X4) - sCurve1(float64(j-1), g.X4)
	}
	return u
}

func (g *GR4JRef) UH2() []float64 {
	u := make([]float64, len(g.P1))
	for j := 1; j <= len(u); j++ {
		u[j-1] = sCurve2(float64(j), g.X4) - sCurve2(float64(j-1), g.X4)
	}
	return u
}

// Step advances one day and returns total streamflow Q.
func (g *GR4JRef) Step(P, E float64) float64 {
	var Pn, En, Ps, Es float64
	if P >= E { // eq. 1 (the Pn = 0 case gives Ps = 0, Es = 0 either way)
		Pn = P - E
	} else {
		En = E - P
	}
	x1 := g.X1
	if Pn > 0 { // eq. 3
		w := math.Tanh(math.Min(Pn/x1, 13))
		s := g.S / x1
		Ps = x1 * (1 - s*s) * w / (1 + s*w)
	}
	if En > 0 { // eq. 4
		w := math.Tanh(math.Min(En/x1, 13))
		s := g.S / x1
		Es = g.S * (2 - s) * w / (1 + (1-s)*w)
	}
	g.S = g.S - Es + Ps                                                // eq. 5
	perc := g.S * (1 - math.Pow(1+math.Pow(4.0/9.0*g.S/x1, 4), -0.25)) // eq. 6
	g.S -= perc                                                        // eq. 7
	Pr := perc + (Pn - Ps)                                             // eq. 8
	u1, u2 := g.UH1(), g.UH2()
	for k := range g.P9 { // eqs. 16-17 as a running convolution
		g.P9[k] += 0.9 * Pr * u1[k]
	}
	for k := range g.P1 {
		g.P1[k] += 0.1 * Pr * u2[k]
	}
	Q9, Q1 := g.P9[0], g.P1[0]
	copy(g.P9, g.P9[1:])
	g.P9[len(g.P9)-1] = 0
	copy(g.P1, g.P1[1:])
	g.P1[len(g.P1)-1] = 0
	F := g.X2 * math.Pow(g.R/g.X3, 3.5)                        // eq. 18
	g.R = math.Max(0, g.R+Q9+F)                                // eq. 19
	Qr := g.R * (1 - math.Pow(1+math.Pow(g.R/g.X3, 4), -0.25)) // eq. 20
	g.R -= Qr
	Qd := math.Max(0, Q1+F) // eq. 21
	return Qr + Qd
}
