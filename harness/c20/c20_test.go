package c20

import (
	"math"
	"testing"

	"pgregory.net/rapid"
	"verif/harness/pbt"
	"verif/harness/simref"
)

func TestMain(m *testing.M) { pbt.Main(m, "C20") }

// Pair: two points run in one series. Kind "T": same humidity, T1 < T2. Kind "RH": same temperature, RH1 < RH2.
type Pair struct {
	Kind           string
	T1, T2, H1, H2 float64
}

type Case struct {
	Elev  float64
	Pairs []Pair
}

func drawT(t *rapid.T) float64 {
	switch rapid.IntRange(0, 5).Draw(t, "tk") {
	case 0: // dense around freezing
		return rapid.Float64Range(-0.5, 0.5).Draw(t, "t0")
	case 1: // around integers
		return float64(rapid.IntRange(-40, 54).Draw(t, "ti")) + rapid.SampledFrom([]float64{0, 1e-9, -1e-9, 1e-3, 0.5}).Draw(t, "tf")
	case 2:
		return rapid.SampledFrom([]float64{-40, 55, 0, 40, 25, 50}).Draw(t, "tc")
	}
	return rapid.Float64Range(-40, 55).Draw(t, "t")
}

func drawH(t *rapid.T) float64 {
	switch rapid.IntRange(0, 5).Draw(t, "hk") {
	case 0:
		return rapid.Float64Range(99, 100).Draw(t, "hhi")
	case 1:
		return rapid.SampledFrom([]float64{100, 99.99, 99.999, 0.01, 1, 50}).Draw(t, "hc")
	case 2:
		return math.Max(1e-3, rapid.Float64Range(0, 1).Draw(t, "hlo"))
	case 3:
		// the dry end on a log scale: the domain is (0, 100] %, and a floor or substitution for "no humidity"
		// sits somewhere down there
		return math.Exp(rapid.Float64Range(math.Log(1e-12), math.Log(1)).Draw(t, "hlog"))
	}
	return math.Max(1e-3, rapid.Float64Range(0, 100).Draw(t, "h"))
}

func clampT(x float64) float64 { return math.Min(55, math.Max(-40, x)) }

func gen(t *rapid.T) Case {
	c := Case{Elev: rapid.Float64Range(0, 10000).Draw(t, "elev")}
	if rapid.IntRange(0, 3).Draw(t, "sea") == 0 {
		c.Elev = 0
	}
	n := rapid.IntRange(1, 20).Draw(t, "n")
	for i := 0; i < n; i++ {
		if rapid.Bool().Draw(t, "kind") {
			a := drawT(t)
			var b float64
			switch rapid.IntRange(0, 3).Draw(t, "gap") {
			case 0: // adjacent floats
				b = math.Nextafter(a, 100)
			case 1:
				b = a + rapid.SampledFrom([]float64{1e-9, 1e-6, 1e-3}).Draw(t, "dt")
			case 2: // straddle freezing
				a, b = -rapid.Float64Range(0, 0.01).Draw(t, "below"), rapid.Float64Range(0, 0.01).Draw(t, "above")
				if b == a {
					b = math.Nextafter(a, 100)
				}
			default:
				b = drawT(t)
			}
			a, b = clampT(a), clampT(b)
			if a > b {
				a, b = b, a
			}
			h := drawH(t)
			c.Pairs = append(c.Pairs, Pair{Kind: "T", T1: a, T2: b, H1: h, H2: h})
		} else {
			T := drawT(t)
			h1, h2 := drawH(t), drawH(t)
			if h1 > h2 {
				h1, h2 = h2, h1
			}
			c.Pairs = append(c.Pairs, Pair{Kind: "RH", T1: clampT(T), T2: clampT(T), H1: h1, H2: h2})
		}
	}
	return c
}

func check(c Case) (r pbt.Result) {
	var Ts, Hs []float64
	for _, p := range c.Pairs {
		Ts = append(Ts, p.T1, p.T2)
		Hs = append(Hs, p.H1, p.H2)
	}
	out, _ := simref.Run1("ClimateVariables", simref.Cell{{c.Elev}}, [][]float64{Ts, Hs}, nil)
	vp, dew, wet, dT := out[0], out[1], out[2], out[3]
	for i := range Ts {
		for _, v := range []float64{vp[i], dew[i], wet[i], dT[i]} {
			if !simref.Finite(v) {
				r.Failf("T=%v RH=%v elev=%v: non-finite output (vp %v dew %v wet %v deltaT %v)", Ts[i], Hs[i], c.Elev, vp[i], dew[i], wet[i], dT[i])
				return
			}
		}
		if vp[i] <= 0 {
			r.Failf("T=%v: saturation vapour pressure %v is not positive", Ts[i], vp[i])
			return
		}
		if dew[i] > wet[i] || wet[i] > Ts[i] {
			r.Failf("T=%.17g RH=%.17g elev=%v: ordering dew point <= wet bulb <= dry bulb broken: dew %.17g wet %.17g dry %.17g", Ts[i], Hs[i], c.Elev, dew[i], wet[i], Ts[i])
			return
		}
		if dT[i] != Ts[i]-wet[i] {
			r.Failf("T=%v: deltaT %v != dry bulb - wet bulb %v", Ts[i], dT[i], Ts[i]-wet[i])
			return
		}
		if Hs[i] >= 99 || Hs[i] <= 1 {
			r.NonTrivial = true
			r.Label("humidity-extreme")
		}
	}
	// the derived variables are functions of one (temperature, humidity, elevation) point: a point run on
	// its own must give what it gives inside any series
	for i := range Ts {
		o1, _ := simref.Run1("ClimateVariables", simref.Cell{{c.Elev}}, [][]float64{{Ts[i]}, {Hs[i]}}, nil)
		for k, name := range []string{"vaporPressure", "dewPoint", "wetBulb", "deltaT"} {
			if !simref.SameBits(o1[k][0], out[k][i]) {
				r.Failf("T=%.17g RH=%.17g elev=%v: %s = %.17g when the point is run alone but %.17g inside a series of %d points (humidities %v)", Ts[i], Hs[i], c.Elev, name, o1[k][0], out[k][i], len(Ts), Hs)
				return
			}
		}
	}
	for k, p := range c.Pairs {
		a, b := 2*k, 2*k+1
		switch p.Kind {
		case "T":
			if p.T1 < 0 && p.T2 > 0 || p.T1 == 0 || p.T2 == 0 {
				r.NonTrivial = true
				r.Label("pair-straddles-freezing")
			}
			if p.T2-p.T1 >= 1e-6 && !(vp[b] > vp[a]) {
				r.Failf("saturation vapour pressure not strictly increasing: e(%.17g) = %.17g, e(%.17g) = %.17g", p.T1, vp[a], p.T2, vp[b])
				return
			}
			if p.T2 > p.T1 && vp[b] < vp[a] {
				r.Failf("saturation vapour pressure decreases: e(%.17g) = %.17g > e(%.17g) = %.17g", p.T1, vp[a], p.T2, vp[b])
				return
			}
		case "RH":
			// (the dew point is a quotient of logarithms: for humidities a few ulps apart the computed values can be
			// out of order by the rounding of the last operations - 1 ulp seen for RH 0.9999999999999991 vs ...96 -
			// so "rises" is asserted up to 8 ulps of the dew point)
			if dew[b] < dew[a]-8*ulpOf(math.Max(math.Abs(dew[a]), 1)) {
				r.Failf("dew point falls with rising humidity at T=%v: RH %v -> %v, dew %v -> %v", p.T1, p.H1, p.H2, dew[a], dew[b])
				return
			}
		}
	}
	return
}

func TestClimateOrdering(t *testing.T) { pbt.Run(t, gen, check) }

func FuzzClimateOrdering(f *testing.F) { pbt.Fuzz(f, gen, check) }

func ulpOf(x float64) float64 { return math.Nextafter(x, math.Inf(1)) - x }
