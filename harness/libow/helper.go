// Package main here is the repository's libopenwater (package main with the exported C entry point
// RunSingleModel): its sources are mapped into this directory at build time by -overlay.  This file
// adds nothing to the entry point; it only lets the (cgo-free) test call it in-process with the same
// C argument types a C caller passes, and is also what `go build -buildmode=c-shared` produces the
// real shared library from for the ABI driver.
package main

// #include <stdlib.h>
import "C"

import "unsafe"

// CallRunSingleModel forwards to the exported entry point.
func CallRunSingleModel(name string,
	inputs unsafe.Pointer, nInputSets, nInputs, nTimesteps int,
	params unsafe.Pointer, nParameters, nParameterSets int,
	states unsafe.Pointer, nCells, nStates int,
	outputs unsafe.Pointer, nOutputCells, nOutputs, nOutputTimesteps int,
	initStates bool) {
	cs := C.CString(name)
	defer C.free(unsafe.Pointer(cs))
	RunSingleModel(cs,
		(*C.double)(inputs), C.int(nInputSets), C.int(nInputs), C.int(nTimesteps),
		(*C.double)(params), C.int(nParameters), C.int(nParameterSets),
		(*C.double)(states), C.int(nCells), C.int(nStates),
		(*C.double)(outputs), C.int(nOutputCells), C.int(nOutputs), C.int(nOutputTimesteps),
		initStates)
}
