package main

// C03 (b): RunSingleModel, the exported C entry point, against the Go API.
//   - in process: the entry point is called with C argument types on buffers that live outside the
//     Go heap, flush against an inaccessible page;
//   - through the real C ABI: libopenwater.so (built with -buildmode=c-shared from these sources)
//     is loaded by a small C program (/verif/cdriver/driver.c) that owns the buffers.

import (
	"bufio"
	"encoding/binary"
	"fmt"
	"io"
	"math"
	"os"
	"os/exec"
	"testing"

	"github.com/flowmatters/openwater-core/data"
	"pgregory.net/rapid"
	"verif/harness/pbt"
	"verif/harness/simref"
	"verif/harness/vrun"
)

func TestMain(m *testing.M) { pbt.Main(m, "C03") }

const sentinel = -777.25

type ABICase struct {
	V          vrun.Case // model, N cells, P parameter sets, B input blocks, T, states, larger output buffer
	InitStates bool      // ask the library to initialise the states itself
	StatesNull bool      // ... and pass NULL for the states buffer (no copy-back)
	AtStart    bool      // real ABI only: buffers flush against the guard page at their start instead of their end
}

func genABI(t *rapid.T) ABICase {
	maxN := 6
	c := ABICase{V: vrun.GenFor("", 1, maxN)(t)}
	if c.V.T > 30 {
		c.V.T = 30
		for b := range c.V.Inputs {
			for i := range c.V.Inputs[b] {
				c.V.Inputs[b][i] = c.V.Inputs[b][i][:30]
			}
		}
	}
	c.InitStates = rapid.Bool().Draw(t, "initStates")
	if c.InitStates {
		c.StatesNull = rapid.IntRange(0, 2).Draw(t, "statesNull") == 0
	}
	c.AtStart = rapid.Bool().Draw(t, "atStart")
	c.V.ExtraState = 0
	return c
}

type flat struct {
	inputs, params, states, outputs            []float64
	nis, ni, nt, np, nps, nc, ns, noc, no, not int
}

// prepare flattens the case into the four caller buffers and computes the Go-API expectation.
func prepare(c ABICase) (in flat, wantOut, wantStates []float64, err string) {
	m := simref.New(c.V.Model)
	desc := m.Description()
	P, B := len(c.V.Cells), len(c.V.Inputs)
	cells := make([]simref.Cell, P)
	for i := range cells {
		cells[i] = vrun.ToCell(c.V.Cells[i])
	}
	pm := simref.ParamMatrix(desc, cells)
	in.np, in.nps = pm.Len(0), P
	in.params = append([]float64(nil), pm.Unroll()...)
	in.nis, in.ni, in.nt = B, len(desc.Inputs), c.V.T
	for b := 0; b < B; b++ {
		for i := 0; i < in.ni; i++ {
			in.inputs = append(in.inputs, pbt.Floats(c.V.Inputs[b][i])...)
		}
	}
	in.nc = c.V.N
	// state rows
	rows := make([][]float64, c.V.N)
	width := 0
	for i := 0; i < c.V.N; i++ {
		if c.InitStates {
			rows[i] = simref.InitStates(c.V.Model, cells[i%P])
		} else {
			rows[i] = c.V.States[i].Resolve(c.V.Model, cells[i%P])
		}
		if len(rows[i]) > width {
			width = len(rows[i])
		}
	}
	in.ns = width
	in.states = make([]float64, c.V.N*width)
	for i := range rows {
		if c.InitStates {
			for j := 0; j < width; j++ {
				in.states[i*width+j] = sentinel // must be overwritten by the copy-back
			}
		} else {
			copy(in.states[i*width:], rows[i])
		}
	}
	in.noc, in.no, in.not = c.V.N+c.V.ExtraCells, len(desc.Outputs), c.V.T+c.V.ExtraT
	in.outputs = make([]float64, in.noc*in.no*in.not)
	for ci := 0; ci < in.noc; ci++ {
		for o := 0; o < in.no; o++ {
			for k := 0; k < in.not; k++ {
				if ci >= c.V.N || k >= c.V.T {
					in.outputs[(ci*in.no+o)*in.not+k] = sentinel
				}
			}
		}
	}
	// expectation through the Go API on Go-backed arrays
	simref.Prepare(m, data.ArrayFromSliceFloat64(append([]float64(nil), in.params...), []int{in.np, in.nps}).(data.ND2Float64))
	var st data.ND2Float64
	if c.InitStates {
		st = m.InitialiseStates(c.V.N)
	} else {
		st = data.ArrayFromSliceFloat64(append([]float64(nil), in.states...), []int{in.nc, in.ns}).(data.ND2Float64)
	}
	ia := data.ArrayFromSliceFloat64(append([]float64(nil), in.inputs...), []int{in.nis, in.ni, in.nt}).(data.ND3Float64)
	wantOut = append([]float64(nil), in.outputs...)
	oa := data.ArrayFromSliceFloat64(wantOut, []int{in.noc, in.no, in.not}).(data.ND3Float64)
	m.Run(ia, st, oa)
	if st.Len(1) != width && c.V.N > 0 && width > 0 {
		err = fmt.Sprintf("state width %d vs %d", st.Len(1), width)
	}
	wantStates = make([]float64, c.V.N*width)
	for i := 0; i < c.V.N; i++ {
		for j := 0; j < width; j++ {
			wantStates[i*width+j] = st.Get2(i, j)
		}
	}
	if c.InitStates && c.StatesNull {
		wantStates = nil
	}
	return
}

func labelABI(c ABICase, r *pbt.Result) {
	r.Label("abi-model:" + c.V.Model)
	P, B := len(c.V.Cells), len(c.V.Inputs)
	if c.V.N >= 2 && (P < c.V.N || B < c.V.N) || (c.InitStates && !c.StatesNull) {
		r.NonTrivial = true
	}
	if c.InitStates {
		if c.StatesNull {
			r.Label("initStates-null-buffer")
		} else {
			r.Label("initStates-copy-back")
		}
	}
	if c.V.ExtraCells+c.V.ExtraT > 0 {
		r.Label("output-buffer-larger")
	}
}

func compare(c ABICase, in flat, gotIn, gotP, gotS, gotO, wantOut, wantStates []float64, r *pbt.Result) {
	bits := func(what string, got, want []float64) bool {
		for i := range want {
			if math.Float64bits(got[i]) != math.Float64bits(want[i]) && !(math.IsNaN(got[i]) && math.IsNaN(want[i])) {
				r.Failf("%s (N=%d P=%d B=%d T=%d initStates=%v statesNull=%v): %s[%d] = %v through the C entry point, %v through the Go API", c.V.Model, c.V.N, len(c.V.Cells), len(c.V.Inputs), c.V.T, c.InitStates, c.StatesNull, what, i, got[i], want[i])
				return false
			}
		}
		return true
	}
	if !bits("outputs", gotO, wantOut) {
		return
	}
	if wantStates != nil && !bits("states", gotS, wantStates) {
		return
	}
	if !bits("inputs (must be unchanged)", gotIn, in.inputs) || !bits("parameters (must be unchanged)", gotP, in.params) {
		return
	}
}

// ---- in process --------------------------------------------------------------------------

func checkInProcess(c ABICase) (r pbt.Result) {
	labelABI(c, &r)
	in, wantOut, wantStates, e := prepare(c)
	if e != "" {
		r.Failf("%s", e)
		return
	}
	mi, mp, ms, mo := vrun.NewCMem(in.inputs), vrun.NewCMem(in.params), vrun.NewCMem(in.states), vrun.NewCMem(in.outputs)
	defer mi.Free()
	defer mp.Free()
	defer ms.Free()
	defer mo.Free()
	sp := ms.Ptr()
	if c.StatesNull {
		sp = nil
	}
	CallRunSingleModel(c.V.Model, mi.Ptr(), in.nis, in.ni, in.nt, mp.Ptr(), in.np, in.nps, sp, in.nc, in.ns, mo.Ptr(), in.noc, in.no, in.not, c.InitStates)
	compare(c, in, mi.Read(), mp.Read(), ms.Read(), mo.Read(), wantOut, wantStates, &r)
	return
}

func TestEntryPointInProcess(t *testing.T) { pbt.Run(t, genABI, checkInProcess) }

// ---- through the real C ABI ----------------------------------------------------------------

type driver struct {
	cmd *exec.Cmd
	in  io.WriteCloser
	out *bufio.Reader
}

var drv *driver

func startDriver() (*driver, error) {
	bin, so := os.Getenv("VERIF_ABI_DRIVER"), os.Getenv("VERIF_LIBOW_SO")
	if bin == "" || so == "" {
		return nil, fmt.Errorf("VERIF_ABI_DRIVER / VERIF_LIBOW_SO not set")
	}
	cmd := exec.Command(bin, so)
	cmd.Stderr = os.Stderr
	in, err := cmd.StdinPipe()
	if err != nil {
		return nil, err
	}
	out, err := cmd.StdoutPipe()
	if err != nil {
		return nil, err
	}
	if err := cmd.Start(); err != nil {
		return nil, err
	}
	return &driver{cmd, in, bufio.NewReaderSize(out, 1<<16)}, nil
}

func (d *driver) call(c ABICase, in flat) (gi, gp, gs, gout []float64, status uint32, err error) {
	w := bufio.NewWriter(d.in)
	binary.Write(w, binary.LittleEndian, uint32(0x4F574D31))
	binary.Write(w, binary.LittleEndian, uint32(len(c.V.Model)))
	w.WriteString(c.V.Model)
	b2i := func(b bool) int32 {
		if b {
			return 1
		}
		return 0
	}
	args := []int32{int32(in.nis), int32(in.ni), int32(in.nt), int32(in.np), int32(in.nps), int32(in.nc), int32(in.ns), int32(in.noc), int32(in.no), int32(in.not), b2i(c.InitStates), b2i(c.StatesNull), b2i(c.AtStart)}
	binary.Write(w, binary.LittleEndian, args)
	binary.Write(w, binary.LittleEndian, in.inputs)
	binary.Write(w, binary.LittleEndian, in.params)
	if !c.StatesNull {
		binary.Write(w, binary.LittleEndian, in.states)
	}
	binary.Write(w, binary.LittleEndian, in.outputs)
	if err = w.Flush(); err != nil {
		return
	}
	if err = binary.Read(d.out, binary.LittleEndian, &status); err != nil {
		return
	}
	gi, gp, gs, gout = make([]float64, len(in.inputs)), make([]float64, len(in.params)), make([]float64, len(in.states)), make([]float64, len(in.outputs))
	for _, buf := range [][]float64{gi, gp, gs, gout} {
		if err = binary.Read(d.out, binary.LittleEndian, buf); err != nil {
			return
		}
	}
	return
}

func checkABI(c ABICase) (r pbt.Result) {
	labelABI(c, &r)
	if c.AtStart {
		r.Label("guard-page-at-buffer-start")
	} else {
		r.Label("guard-page-at-buffer-end")
	}
	in, wantOut, wantStates, e := prepare(c)
	if e != "" {
		r.Failf("%s", e)
		return
	}
	if drv == nil {
		d, err := startDriver()
		if err != nil {
			r.Failf("INFRASTRUCTURE: cannot start the ABI driver: %v", err)
			return
		}
		drv = d
	}
	gi, gp, gs, gout, status, err := drv.call(c, in)
	if err != nil {
		// the driver died: an access outside the caller's buffers hit a guard page (or the library crashed)
		werr := drv.cmd.Wait()
		drv = nil
		r.Failf("%s through the C ABI (N=%d P=%d B=%d T=%d initStates=%v statesNull=%v, guard at start=%v): the caller process died (%v / %v): access outside the caller's buffers or a crash inside the library",
			c.V.Model, c.V.N, len(c.V.Cells), len(c.V.Inputs), c.V.T, c.InitStates, c.StatesNull, c.AtStart, err, werr)
		return
	}
	if status != 0 {
		r.Failf("%s through the C ABI: bytes outside the caller's buffers were overwritten (mask %d: 1 inputs, 2 parameters, 4 states, 8 outputs)", c.V.Model, status)
		return
	}
	compare(c, in, gi, gp, gs, gout, wantOut, wantStates, &r)
	return
}

func TestEntryPointThroughCABI(t *testing.T) {
	pbt.Run(t, genABI, checkABI)
	if drv != nil {
		drv.in.Close()
		drv.cmd.Wait()
		drv = nil
	}
}
