package c15

import (
	"fmt"
	"math"
	"testing"

	"pgregory.net/rapid"
	"verif/harness/pbt"
	"verif/harness/simref"
)

func TestMain(m *testing.M) { pbt.Main(m, "C15") }

type Case struct {
	X1, X2, X3, X4 float64
	Rain, PET      []float64
	WarmRain       []float64 `json:",omitempty"` // initial stores = the reference model's stores after this warm-up
	WarmPET        []float64 `json:",omitempty"`
}

func gen(t *rapid.T) Case {
	cell := simref.DrawCell(t, "GR4J")
	c := Case{X1: cell[0][0], X2: cell[1][0], X3: cell[2][0], X4: cell[3][0]}
	maxT := 60
	if pbt.Thorough() {
		maxT = 400
	}
	T := rapid.IntRange(1, maxT).Draw(t, "T")
	in := simref.DrawInputs(t, "GR4J", cell, T)
	c.Rain, c.PET = in[0], in[1]
	if rapid.Bool().Draw(t, "stormy") {
		simref.Stormy(t, c.Rain)
	}
	// boundary of the net-rainfall / net-evaporation split: days with rainfall exactly equal to PET
	for i := range c.Rain {
		if rapid.IntRange(0, 9).Draw(t, "equalDay") == 0 {
			c.PET[i] = c.Rain[i]
		}
	}
	if rapid.Bool().Draw(t, "warm") {
		w := simref.DrawInputs(t, "GR4J", cell, rapid.IntRange(1, 30).Draw(t, "warmT"))
		c.WarmRain, c.WarmPET = w[0], w[1]
	}
	return c
}

func check(c Case) (r pbt.Result) {
	ref := simref.NewGR4JRef(c.X1, c.X2, c.X3, c.X4)
	for i := range c.WarmRain {
		ref.Step(c.WarmRain[i], c.WarmPET[i])
	}
	n1, n2 := len(ref.P9), len(ref.P1)
	// the repository's state layout: s, r, n1, n2, q1[n2], q9[n1]
	st := []float64{ref.S, ref.R, float64(n1), float64(n2)}
	st = append(st, ref.P1...)
	st = append(st, ref.P9...)
	cell := simref.Cell{{c.X1}, {c.X2}, {c.X3}, {c.X4}}
	out, fin := simref.Run1("GR4J", cell, [][]float64{c.Rain, c.PET}, st)
	r.Label(fmt.Sprintf("ceil(x4)=%d", n1))
	r.Label(fmt.Sprintf("ceil(2*x4)=%d", n2))
	storm := false
	for _, p := range c.Rain {
		if p > 20 {
			storm = true
		}
	}
	if (c.X4 >= 2 || c.X4 < 1) && storm {
		r.NonTrivial = true
	}
	if c.WarmRain != nil {
		r.Label("carried-initial-stores")
	}
	// (A whole-run comparison of two independent implementations is not meaningful here: with a strongly
	// negative exchange coefficient and a small routing store the map R -> R' is expanding, and round-off
	// differences grow to 1e-4 relative within 100-200 steps. The equations are compared step by step.)
	// One-step comparison: from the code's own state after every step, one step of the reference must
	// give the code's next output and next state. No round-off is carried from step to step (the routing
	// store with a strongly negative exchange and a small capacity amplifies it), so this is tight.
	stCode := append([]float64(nil), st...)
	var stepOut []float64
	for i := range c.Rain {
		o1, next := simref.Run1("GR4J", cell, [][]float64{c.Rain[i : i+1], c.PET[i : i+1]}, append([]float64(nil), stCode...))
		r1 := simref.NewGR4JRef(c.X1, c.X2, c.X3, c.X4)
		r1.S, r1.R = stCode[0], stCode[1]
		copy(r1.P1, stCode[4:4+n2])
		copy(r1.P9, stCode[4+n2:4+n2+n1])
		q := r1.Step(c.Rain[i], c.PET[i])
		sc := math.Max(math.Max(stCode[0], stCode[1]), c.Rain[i])
		tight := func(a, b float64) bool {
			return a == b || math.Abs(a-b) <= 1e-11*math.Max(math.Abs(a), math.Abs(b))+1e-13*(1+sc)
		}
		if !tight(o1[0][0], q) {
			r.Failf("GR4J x=(%g,%g,%g,%g) one step from state %v with rain %v pet %v: runoff %.17g, the published equations give %.17g", c.X1, c.X2, c.X3, c.X4, stCode, c.Rain[i], c.PET[i], o1[0][0], q)
			return
		}
		w1 := append([]float64{r1.S, r1.R, float64(n1), float64(n2)}, append(append([]float64(nil), r1.P1...), r1.P9...)...)
		for j := range w1 {
			if !tight(next[j], w1[j]) {
				r.Failf("GR4J x=(%g,%g,%g,%g) one step from state %v with rain %v pet %v: next state %v, the published equations give %v", c.X1, c.X2, c.X3, c.X4, stCode, c.Rain[i], c.PET[i], next, w1)
				return
			}
		}
		stepOut = append(stepOut, o1[0][0])
		stCode = next
	}
	// the uninterrupted Run over the whole series must be the iteration of that one-step map (same code,
	// same arithmetic: nothing may be carried from day to day except through the state vector)
	for i := range stepOut {
		if !(out[0][i] == stepOut[i] || math.Abs(out[0][i]-stepOut[i]) <= 1e-12*math.Max(math.Abs(out[0][i]), math.Abs(stepOut[i]))) {
			r.Failf("GR4J x=(%g,%g,%g,%g): runoff[%d] = %.17g in one Run over the series but %.17g when the same days are run one at a time from the returned states (rain %v pet %v, previous day rain %v pet %v)",
				c.X1, c.X2, c.X3, c.X4, i, out[0][i], stepOut[i], c.Rain[i], c.PET[i], prevOf(c.Rain, i), prevOf(c.PET, i))
			return
		}
	}
	for j := range stCode {
		if !(fin[j] == stCode[j] || math.Abs(fin[j]-stCode[j]) <= 1e-12*math.Max(math.Abs(fin[j]), math.Abs(stCode[j]))) {
			r.Failf("GR4J x=(%g,%g,%g,%g): final state %d = %v in one Run, %v when run one day at a time", c.X1, c.X2, c.X3, c.X4, j, fin[j], stCode[j])
			return
		}
	}
	return
}

func prevOf(v []float64, i int) interface{} {
	if i == 0 {
		return "-"
	}
	return v[i-1]
}

func TestAgainstPublishedEquations(t *testing.T) { pbt.Run(t, gen, check) }
