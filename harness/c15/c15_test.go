package c15

import (
	"fmt"
	"math"
	"testing"

	"pgregory.net/rapid"
	"verif/harness/pbt"
	"verif/harness/simref"
)

func TestMain(m *testing.M) { pbt.Main(m, "C15") }

type Case struct {
	X1, X2, X3, X4 float64
	Rain, PET      []float64
	WarmRain       []float64 `json:",omitempty"` // initial stores = the reference model's stores after this warm-up
	WarmPET        []float64 `json:",omitempty"`
}

func gen(t *rapid.T) Case {
	cell := simref.DrawCell(t, "GR4J")
	c := Case{X1: cell[0][0], X2: cell[1][0], X3: cell[2][0], X4: cell[3][0]}
	maxT := 60
	if pbt.Thorough() {
		maxT = 400
	}
	T := rapid.IntRange(1, maxT).Draw(t, "T")
	in := simref.DrawInputs(t, "GR4J", cell, T)
	c.Rain, c.PET = in[0], in[1]
	if rapid.Bool().Draw(t, "stormy") {
		simref.Stormy(t, c.Rain)
	}
	if rapid.Bool().Draw(t, "warm") {
		w := simref.DrawInputs(t, "GR4J", cell, rapid.IntRange(1, 30).Draw(t, "warmT"))
		c.WarmRain, c.WarmPET = w[0], w[1]
	}
	return c
}

// Two independent implementations of the same equations differ by accumulated round-off;
// the direct-flow branch max(0, Q1+F) and the routing-store outflow R - R/(..)^(1/4) subtract
// nearly equal numbers, so small flows carry an absolute error proportional to the magnitude
// of the stores and rain, not to the flow itself: 1e-9 relative + 1e-10 * (1 + that magnitude).
func close(a, b, scale float64) bool {
	return a == b || math.Abs(a-b) <= 1e-9*math.Max(math.Abs(a), math.Abs(b))+1e-10*(1+scale)
}

func check(c Case) (r pbt.Result) {
	ref := simref.NewGR4JRef(c.X1, c.X2, c.X3, c.X4)
	for i := range c.WarmRain {
		ref.Step(c.WarmRain[i], c.WarmPET[i])
	}
	n1, n2 := len(ref.P9), len(ref.P1)
	// the repository's state layout: s, r, n1, n2, q1[n2], q9[n1]
	st := []float64{ref.S, ref.R, float64(n1), float64(n2)}
	st = append(st, ref.P1...)
	st = append(st, ref.P9...)
	cell := simref.Cell{{c.X1}, {c.X2}, {c.X3}, {c.X4}}
	out, fin := simref.Run1("GR4J", cell, [][]float64{c.Rain, c.PET}, st)
	r.Label(fmt.Sprintf("ceil(x4)=%d", n1))
	r.Label(fmt.Sprintf("ceil(2*x4)=%d", n2))
	storm := false
	for _, p := range c.Rain {
		if p > 20 {
			storm = true
		}
	}
	if (c.X4 >= 2 || c.X4 < 1) && storm {
		r.NonTrivial = true
	}
	if c.WarmRain != nil {
		r.Label("carried-initial-stores")
	}
	scale := math.Max(ref.S, ref.R)
	for i := range c.Rain {
		scale = math.Max(scale, c.Rain[i])
		q := ref.Step(c.Rain[i], c.PET[i])
		if !close(out[0][i], q, scale) {
			r.Failf("GR4J x=(%g,%g,%g,%g): runoff[%d] = %.17g, the published equations give %.17g (UH1 %v UH2 %v)", c.X1, c.X2, c.X3, c.X4, i, out[0][i], q, ref.UH1(), ref.UH2())
			return
		}
	}
	want := []float64{ref.S, ref.R, float64(n1), float64(n2)}
	want = append(want, ref.P1...)
	want = append(want, ref.P9...)
	names := []string{"S", "R", "n1", "n2"}
	for j := range want {
		if j >= len(fin) || !close(fin[j], want[j], scale) {
			nm := "UH store"
			if j < 4 {
				nm = names[j]
			}
			r.Failf("GR4J x=(%g,%g,%g,%g): final state %d (%s) = %v, the published equations give %v", c.X1, c.X2, c.X3, c.X4, j, nm, fin, want)
			return
		}
	}
	return
}

func TestAgainstPublishedEquations(t *testing.T) { pbt.Run(t, gen, check) }
