// Package viewmodel is the extensional reference model of n-d views: a view is its
// shape plus the explicit list of storage offsets of its elements in row-major
// order.  Slicing is computed on index tuples (child[i] = parent[loc + i*step]),
// never on strides, so the model cannot share a stride-composition mistake with the
// code under test.
package viewmodel

import (
	"pgregory.net/rapid"
)

type Store struct{ V []float64 }

type MV struct {
	S     *Store
	Shape []int
	Offs  []int
	Depth int  // slicing depth below the root
	Stepd bool // some slice in the chain had a step > 1 on a dimension of extent > 1
	Rank0 int  // rank of the array the implementation's stride vectors were built for (differs from len(Shape) for rank-reduced views)
}

func Product(s []int) int {
	p := 1
	for _, v := range s {
		p *= v
	}
	return p
}

func NewRoot(vals []float64, dims []int) *MV {
	n := Product(dims)
	offs := make([]int, n)
	for i := range offs {
		offs[i] = i
	}
	return &MV{S: &Store{V: append([]float64(nil), vals...)}, Shape: append([]int(nil), dims...), Offs: offs, Rank0: len(dims)}
}

func (m *MV) Size() int         { return len(m.Offs) }
func (m *MV) RankReduced() bool { return m.Rank0 != len(m.Shape) }

// Pos is the row-major position of idx (shorter idx = trailing zeros).
func (m *MV) Pos(idx []int) int {
	p := 0
	for d, n := range m.Shape {
		v := 0
		if d < len(idx) {
			v = idx[d]
		}
		if v < 0 || v >= n {
			panic("model: index out of range")
		}
		p = p*n + v
	}
	return p
}

// Each visits every index tuple of shape in row-major order.
func Each(shape []int, f func(idx []int)) {
	n := Product(shape)
	idx := make([]int, len(shape))
	for k := 0; k < n; k++ {
		f(idx)
		for d := len(shape) - 1; d >= 0; d-- {
			idx[d]++
			if idx[d] < shape[d] {
				break
			}
			idx[d] = 0
		}
	}
}

// Slice: element i of the child is element loc + i*step of the parent. dims may be
// shorter than the parent's rank (the remaining parent dimensions stay at loc).
func (m *MV) Slice(loc, dims, step []int) *MV {
	c := &MV{S: m.S, Shape: append([]int(nil), dims...), Depth: m.Depth + 1, Stepd: m.Stepd, Rank0: m.Rank0}
	c.Offs = make([]int, 0, Product(dims))
	pidx := make([]int, len(m.Shape))
	Each(dims, func(idx []int) {
		copy(pidx, loc)
		for d := range idx {
			s := 1
			if step != nil {
				s = step[d]
			}
			pidx[d] = loc[d] + idx[d]*s
		}
		c.Offs = append(c.Offs, m.Offs[m.Pos(pidx)])
	})
	for d := range dims {
		if step != nil && step[d] > 1 && dims[d] > 1 {
			c.Stepd = true
		}
	}
	return c
}

func (m *MV) Get(idx []int) float64    { return m.S.V[m.Offs[m.Pos(idx)]] }
func (m *MV) Set(idx []int, v float64) { m.S.V[m.Offs[m.Pos(idx)]] = v }

func (m *MV) Values() []float64 {
	r := make([]float64, len(m.Offs))
	for i, o := range m.Offs {
		r[i] = m.S.V[o]
	}
	return r
}

// Contig: elements adjacent in storage in row-major order.
func (m *MV) Contig() bool {
	for i := 1; i < len(m.Offs); i++ {
		if m.Offs[i] != m.Offs[i-1]+1 {
			return false
		}
	}
	return true
}

// Reshape (sizes equal): a contiguous view keeps aliasing the storage, any other is
// copied into fresh storage (the Go back-end's documented behaviour).
func (m *MV) Reshape(shape []int) *MV {
	if m.Contig() {
		return &MV{S: m.S, Shape: append([]int(nil), shape...), Offs: append([]int(nil), m.Offs...), Depth: 0, Rank0: len(shape), Stepd: false}
	}
	return NewRoot(m.Values(), shape)
}

// SliceSpec is a drawn slice request.
type SliceSpec struct {
	Loc, Dims, Step []int // Step nil = no step given
}

// DrawSlice draws an in-bounds (loc, dims, step) for a view of the given shape, by
// construction. stepMode: 0 nil step, 1 explicit ones, 2 per-dimension 1..3.
func DrawSlice(t *rapid.T, shape []int, label string) SliceSpec {
	r := len(shape)
	sp := SliceSpec{Loc: make([]int, r), Dims: make([]int, r)}
	mode := rapid.IntRange(0, 3).Draw(t, label+".stepmode")
	if mode > 0 {
		sp.Step = make([]int, r)
	}
	for d := 0; d < r; d++ {
		st := 1
		if mode >= 2 {
			st = rapid.IntRange(1, 3).Draw(t, label+".step")
		}
		maxDims := (shape[d]-1)/st + 1
		var n int
		switch rapid.IntRange(0, 3).Draw(t, label+".extent") {
		case 0:
			n = maxDims
		case 1:
			n = 1
		default:
			n = rapid.IntRange(1, maxDims).Draw(t, label+".dims")
		}
		lo := rapid.IntRange(0, shape[d]-1-(n-1)*st).Draw(t, label+".loc")
		sp.Loc[d], sp.Dims[d] = lo, n
		if sp.Step != nil {
			sp.Step[d] = st
		}
	}
	return sp
}

// DrawSliceOfShape draws a root shape and an in-bounds slice of it whose result has
// exactly the wanted shape (used to make source operands of either contiguity class).
func DrawSliceOfShape(t *rapid.T, want []int, label string) (rootDims []int, sp SliceSpec) {
	r := len(want)
	rootDims = make([]int, r)
	sp = SliceSpec{Loc: make([]int, r), Dims: append([]int(nil), want...)}
	kind := rapid.IntRange(0, 2).Draw(t, label+".kind") // 0 exact (contiguous), 1 padded, 2 padded+stepped
	if kind == 2 {
		sp.Step = make([]int, r)
	}
	for d := 0; d < r; d++ {
		st := 1
		if kind == 2 {
			st = rapid.IntRange(1, 3).Draw(t, label+".step")
			sp.Step[d] = st
		}
		need := (want[d]-1)*st + 1
		pad := 0
		if kind > 0 {
			pad = rapid.IntRange(0, 2).Draw(t, label+".pad")
		}
		rootDims[d] = need + pad
		sp.Loc[d] = rapid.IntRange(0, pad).Draw(t, label+".loc")
	}
	return
}

// DrawDims draws a root shape: rank 1..maxRank, extents 1..maxExt, total size capped.
func DrawDims(t *rapid.T, maxRank, maxExt int, label string) []int {
	r := rapid.IntRange(1, maxRank).Draw(t, label+".rank")
	d := make([]int, r)
	for i := range d {
		d[i] = rapid.IntRange(1, maxExt).Draw(t, label+".ext")
	}
	return d
}
