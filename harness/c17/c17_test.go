package c17

import (
	"bytes"
	"encoding/json"
	"fmt"
	"math"
	"os"
	"os/exec"
	"strings"
	"testing"
	"time"
	"unicode"

	"github.com/flowmatters/openwater-core/data"
	owjs "github.com/flowmatters/openwater-core/io/json"
	"github.com/flowmatters/openwater-core/sim"
	"pgregory.net/rapid"
	"verif/harness/pbt"
	"verif/harness/simref"
	vm "verif/harness/viewmodel"
)

func TestMain(m *testing.M) {
	if os.Getenv("VERIF_C17_SERVE") != "" {
		serve()
		return
	}
	pbt.Main(m, "C17")
}

// ---------------------------------------------------------------------------
// (c) JSON-safe conversion of arrays / views

type ArrCase struct {
	Root  []int
	Chain []vm.SliceSpec
	Vals  []pbt.F // root storage
}

func genArr(t *rapid.T) ArrCase {
	c := ArrCase{Root: vm.DrawDims(t, 4, 5, "root")}
	shape := c.Root
	for i := rapid.IntRange(0, 2).Draw(t, "depth"); i > 0; i-- {
		sp := vm.DrawSlice(t, shape, "s")
		c.Chain = append(c.Chain, sp)
		shape = sp.Dims
	}
	n := vm.Product(c.Root)
	for i := 0; i < n; i++ {
		v := float64(i) + 0.5
		switch rapid.IntRange(0, 9).Draw(t, "special") {
		case 0:
			v = math.NaN()
		case 1:
			v = math.Inf(1)
		case 2:
			v = math.Inf(-1)
		case 3:
			v = -v
		}
		c.Vals = append(c.Vals, pbt.F(v))
	}
	return c
}

func leaf(v float64) interface{} {
	switch {
	case math.IsNaN(v):
		return "NaN"
	case math.IsInf(v, 1):
		return "+Inf"
	case math.IsInf(v, -1):
		return "-Inf"
	}
	return v
}

func checkArr(c ArrCase) (r pbt.Result) {
	vals := pbt.Floats(c.Vals)
	arr := data.ArrayFromSliceFloat64(append([]float64(nil), vals...), append([]int(nil), c.Root...))
	m := vm.NewRoot(vals, c.Root)
	stepped := false
	for _, sp := range c.Chain {
		arr = arr.Slice(sp.Loc, sp.Dims, sp.Step)
		m = m.Slice(sp.Loc, sp.Dims, sp.Step)
	}
	stepped = m.Stepd
	rank := len(m.Shape)
	if rank >= 3 || stepped {
		r.NonTrivial = true
	}
	r.Label(fmt.Sprintf("rank:%d", rank))
	for shift := 0; shift < rank; shift++ {
		var got []interface{}
		perr := ""
		func() {
			defer func() {
				if e := recover(); e != nil {
					perr = fmt.Sprint(e)
				}
			}()
			got = owjs.JsonSafeArray(arr, shift)
		}()
		if perr != "" {
			r.Failf("JsonSafeArray(shape %v, shiftDim %d) panicked: %s", m.Shape, shift, perr)
			return
		}
		// expected: nesting by dimensions shift..rank-1, earlier dimensions at index 0
		var build func(d int, idx []int) interface{}
		build = func(d int, idx []int) interface{} {
			if d == rank {
				return leaf(m.Get(idx))
			}
			l := make([]interface{}, m.Shape[d])
			for i := range l {
				idx[d] = i
				l[i] = build(d+1, idx)
			}
			idx[d] = 0
			return l
		}
		want := build(shift, make([]int, rank))
		gb, err := json.Marshal(got)
		if err != nil {
			r.Failf("JsonSafeArray result does not marshal: %v", err)
			return
		}
		wb, _ := json.Marshal(want)
		if !bytes.Equal(gb, wb) {
			r.Failf("JsonSafeArray(shape %v, shiftDim %d) = %s, nesting by dimensions gives %s", m.Shape, shift, gb, wb)
			return
		}
	}
	return
}

func TestJsonSafeArray(t *testing.T) { pbt.Run(t, genArr, checkArr) }

// ---------------------------------------------------------------------------
// requests

type NV struct {
	Name  string
	Value pbt.F
}
type NS struct {
	Name   string
	Values []pbt.F
}

// Req is a structured request: parameters and inputs as (name, value) lists in the order they are sent.
type Req struct {
	Model  string
	Params []NV
	Inputs []NS
	Split  bool
	Raw    string `json:",omitempty"` // robustness class: the request body verbatim
	Kind   string
}

func (q Req) body() []byte {
	if q.Raw != "" || q.Kind == "raw" {
		return []byte(q.Raw)
	}
	type mv struct {
		Name  string
		Value interface{}
	}
	type mi struct {
		Name   string
		Values []interface{}
	}
	doc := struct {
		Name       string
		Inputs     []mi
		Parameters []mv
	}{Name: q.Model}
	for _, p := range q.Params {
		doc.Parameters = append(doc.Parameters, mv{p.Name, float64(p.Value)})
	}
	for _, in := range q.Inputs {
		vals := make([]interface{}, len(in.Values))
		for i, v := range in.Values {
			vals[i] = float64(v)
		}
		doc.Inputs = append(doc.Inputs, mi{in.Name, vals})
	}
	b, _ := json.Marshal(doc)
	return b
}

func scalarModels() []string {
	var r []string
	for _, n := range simref.Names() {
		if len(simref.New(n).Description().Dimensions) == 0 {
			r = append(r, n)
		}
	}
	return r
}

// genReq draws a structured request. full = every parameter present (no defaults used).
func genReq(t *rapid.T, full bool) Req {
	return genReqFor(t, rapid.SampledFrom(scalarModels()).Draw(t, "model"), full)
}

func genReqFor(t *rapid.T, name string, full bool) Req {
	desc := simref.New(name).Description()
	cc := simref.DrawCellCase(t, name, 1, 25)
	q := Req{Model: name, Split: rapid.Bool().Draw(t, "split"), Kind: "structured"}
	for i, p := range desc.Parameters {
		if !full && rapid.IntRange(0, 3).Draw(t, "dropP") == 0 {
			continue
		}
		q.Params = append(q.Params, NV{p.Name, pbt.F(cc.Cell[i][0])})
	}
	keepOne := rapid.IntRange(0, len(desc.Inputs)-1).Draw(t, "keepInput")
	for i, in := range desc.Inputs {
		if i != keepOne && rapid.IntRange(0, 3).Draw(t, "dropI") == 0 {
			continue
		}
		q.Inputs = append(q.Inputs, NS{in, pbt.Fs(cc.Inputs[i])})
	}
	// superset: names that differ from a declared one only in the case of a letter (a parameter set shared between
	// models: DynamicSednetGully declares Area, DepthToRate declares area) are other names
	caseVariant := func(n string) string {
		r := []rune(n)
		k := rapid.IntRange(0, len(r)-1).Draw(t, "casePos")
		for i := 0; i < len(r); i++ {
			j := (k + i) % len(r)
			if up := unicode.ToUpper(r[j]); up != r[j] {
				r[j] = up
				return string(r)
			}
			if lo := unicode.ToLower(r[j]); lo != r[j] {
				r[j] = lo
				return string(r)
			}
		}
		return n + "_"
	}
	declared := map[string]bool{}
	for _, p := range desc.Parameters {
		declared[p.Name] = true
	}
	for _, in := range desc.Inputs {
		declared[in] = true
	}
	if len(desc.Parameters) > 0 && rapid.IntRange(0, 3).Draw(t, "caseP") == 0 {
		p := desc.Parameters[rapid.IntRange(0, len(desc.Parameters)-1).Draw(t, "casePWhich")]
		if v := caseVariant(p.Name); !declared[v] {
			nv := NV{v, pbt.F(cc.Cell[0][0]*0.5 + 7)}
			at := rapid.IntRange(0, len(q.Params)).Draw(t, "casePAt")
			q.Params = append(q.Params[:at], append([]NV{nv}, q.Params[at:]...)...)
			if !full && rapid.Bool().Draw(t, "casePOnly") {
				// only the variant is sent: the declared parameter is missing
				var keep []NV
				for _, g := range q.Params {
					if g.Name != p.Name {
						keep = append(keep, g)
					}
				}
				q.Params = keep
			}
		}
	}
	if rapid.IntRange(0, 5).Draw(t, "caseI") == 0 && len(q.Inputs) > 0 {
		g := q.Inputs[rapid.IntRange(0, len(q.Inputs)-1).Draw(t, "caseIWhich")]
		if v := caseVariant(g.Name); !declared[v] && declared[g.Name] {
			other := make([]pbt.F, len(g.Values))
			for i := range other {
				other[i] = g.Values[i]*0.5 + 3
			}
			at := rapid.IntRange(0, len(q.Inputs)).Draw(t, "caseIAt")
			q.Inputs = append(q.Inputs[:at], append([]NS{{v, other}}, q.Inputs[at:]...)...)
		}
	}
	if rapid.IntRange(0, 3).Draw(t, "extraP") == 0 {
		q.Params = append(q.Params, NV{"notAParameter", 42})
	}
	if rapid.IntRange(0, 3).Draw(t, "extraI") == 0 {
		// a series the model does not know, of any length (it must simply be ignored)
		extra := simref.Series(t, rapid.IntRange(1, 30).Draw(t, "extraLen"), 10, "extraSeries")
		q.Inputs = append(q.Inputs, NS{"notAnInput", pbt.Fs(extra)})
	}
	if !full && rapid.IntRange(0, 11).Draw(t, "onlyUnknown") == 0 {
		// nothing but unknown series: there is no input to run on
		q.Inputs = []NS{{"notAnInput", pbt.Fs(cc.Inputs[0])}}
	}
	if !full && len(q.Inputs) >= 2 && rapid.IntRange(0, 9).Draw(t, "unequal") == 0 {
		// one series of a different length (shorter, longer, empty)
		k := rapid.IntRange(0, len(q.Inputs)-1).Draw(t, "unequalWhich")
		n := len(q.Inputs[k].Values)
		m := rapid.SampledFrom([]int{0, 1, n - 1, n + 1, n + 7}).Draw(t, "unequalLen")
		if m < 0 {
			m = 0
		}
		v := make([]pbt.F, m)
		for i := range v {
			v[i] = q.Inputs[k].Values[i%n]
		}
		q.Inputs[k] = NS{q.Inputs[k].Name, v}
	}
	// any order
	if rapid.Bool().Draw(t, "shuffle") {
		q.Params = rapid.Permutation(q.Params).Draw(t, "permP")
		q.Inputs = rapid.Permutation(q.Inputs).Draw(t, "permI")
	}
	return q
}

type response struct {
	Log        []string
	RunResults struct {
		Outputs json.RawMessage
		States  json.RawMessage
	}
}

func unleaf(v interface{}) (float64, bool) {
	switch x := v.(type) {
	case float64:
		return x, true
	case string:
		switch x {
		case "NaN":
			return math.NaN(), true
		case "+Inf":
			return math.Inf(1), true
		case "-Inf":
			return math.Inf(-1), true
		}
	}
	return 0, false
}

// expectation of a structured request: direct one-cell run with defaults / zeros
func direct(q Req) (desc sim.ModelDescription, out [][]float64, st []float64, missP, missI []string) {
	desc = simref.New(q.Model).Description()
	cell := make(simref.Cell, len(desc.Parameters))
	for i, p := range desc.Parameters {
		v, ok := p.Default, false
		for _, g := range q.Params { // first match wins
			if g.Name == p.Name {
				v, ok = float64(g.Value), true
				break
			}
		}
		if !ok {
			missP = append(missP, p.Name)
		}
		cell[i] = []float64{v}
	}
	T := 0
	for _, g := range q.Inputs {
		for _, in := range desc.Inputs {
			if in == g.Name && T == 0 {
				T = len(g.Values)
			}
		}
	}
	in := make([][]float64, len(desc.Inputs))
	for i, nm := range desc.Inputs {
		in[i] = make([]float64, T)
		found := false
		for _, g := range q.Inputs {
			if g.Name == nm {
				copy(in[i], pbt.Floats(g.Values))
				found = true
				break
			}
		}
		if !found {
			missI = append(missI, nm)
		}
	}
	out, st = simref.Run1(q.Model, cell, in, nil)
	return
}

// knownLengths: the length of the series supplied for each of the model's inputs (first match by name), in the
// model's input order; inputs without a series are left out.
func knownLengths(model string, ins []NS) []int {
	var l []int
	for _, nm := range simref.New(model).Description().Inputs {
		for _, g := range ins {
			if g.Name == nm {
				l = append(l, len(g.Values))
				break
			}
		}
	}
	return l
}

func unequal(l []int) bool {
	for _, n := range l {
		if n != l[0] {
			return true
		}
	}
	return false
}

// compareResponse checks a decoded response of a structured request against the direct run.
func compareResponse(q Req, resp response, r *pbt.Result) {
	known := false
	for _, g := range q.Inputs {
		for _, in := range simref.New(q.Model).Description().Inputs {
			if in == g.Name {
				known = true
			}
		}
	}
	if !known {
		// no series of the model's own inputs: nothing can be run; the answer must say so and carry no results
		r.Label("no-known-input-series")
		r.NonTrivial = true
		if len(resp.RunResults.Outputs) > 0 && string(resp.RunResults.Outputs) != "null" {
			r.Failf("%s: no input series of the model was supplied, yet the answer carries outputs %s (log %q)", q.Model, trunc(string(resp.RunResults.Outputs), 200), resp.Log)
		}
		nonEmpty := false
		for _, l := range resp.Log {
			if strings.Contains(l, "input") || strings.Contains(l, "Input") {
				nonEmpty = true
			}
		}
		if !nonEmpty {
			r.Failf("%s: no input series of the model was supplied and the log does not mention it: %q", q.Model, resp.Log)
		}
		return
	}
	if lens := knownLengths(q.Model, q.Inputs); unequal(lens) {
		// series of the model's inputs with different lengths: a problem to be described, not a run
		r.Label("unequal-input-lengths")
		r.NonTrivial = true
		if len(resp.RunResults.Outputs) > 0 && string(resp.RunResults.Outputs) != "null" {
			r.Failf("%s: input series of lengths %v were supplied, yet the answer carries outputs %s (log %q)", q.Model, lens, trunc(string(resp.RunResults.Outputs), 200), resp.Log)
		}
		if len(strings.TrimSpace(strings.Join(resp.Log, ""))) == 0 {
			r.Failf("%s: input series of lengths %v were supplied and the log is empty", q.Model, lens)
		}
		return
	}
	desc, out, st, missP, missI := direct(q)
	T := 0
	if len(out) > 0 {
		T = len(out[0])
	}
	same := func(what string, got interface{}, want float64) bool {
		g, ok := unleaf(got)
		if !ok || !simref.SameBits(g, want) {
			r.Failf("%s %s: %s = %v, a direct run gives %v", q.Model, kindOf(q), what, got, want)
			return false
		}
		return true
	}
	if q.Split {
		var om map[string][]interface{}
		if err := json.Unmarshal(resp.RunResults.Outputs, &om); err != nil {
			r.Failf("%s: split outputs are not a map of arrays: %v (%s)", q.Model, err, resp.RunResults.Outputs)
			return
		}
		if len(om) != len(desc.Outputs) {
			r.Failf("%s: %d outputs in the response, the model has %d", q.Model, len(om), len(desc.Outputs))
			return
		}
		for i, nm := range desc.Outputs {
			if len(om[nm]) != T {
				r.Failf("%s: output %s has %d values, expected %d", q.Model, nm, len(om[nm]), T)
				return
			}
			for k := 0; k < T; k++ {
				if !same(fmt.Sprintf("output %s[%d]", nm, k), om[nm][k], out[i][k]) {
					return
				}
			}
		}
		if len(desc.States) > 0 {
			var sm map[string]interface{}
			if err := json.Unmarshal(resp.RunResults.States, &sm); err != nil {
				r.Failf("%s: split states are not a map: %v", q.Model, err)
				return
			}
			for i, nm := range desc.States {
				if i >= len(st) { // fewer state values than names (empty lag buffer): nothing to report for the name
					if _, present := sm[nm]; present {
						r.Failf("%s: state %s reported although the model has only %d state values", q.Model, nm, len(st))
						return
					}
					continue
				}
				if !same("state "+nm, sm[nm], st[i]) {
					return
				}
			}
		}
	} else {
		var oa [][]interface{}
		if err := json.Unmarshal(resp.RunResults.Outputs, &oa); err != nil || len(oa) != len(desc.Outputs) {
			r.Failf("%s: outputs are not nested [outputs][timesteps]: %v (%s)", q.Model, err, resp.RunResults.Outputs)
			return
		}
		for i := range oa {
			if len(oa[i]) != T {
				r.Failf("%s: output row %d has %d values, expected %d", q.Model, i, len(oa[i]), T)
				return
			}
			for k := 0; k < T; k++ {
				if !same(fmt.Sprintf("output %s[%d]", desc.Outputs[i], k), oa[i][k], out[i][k]) {
					return
				}
			}
		}
		var sa []interface{}
		if err := json.Unmarshal(resp.RunResults.States, &sa); err != nil || len(sa) != len(st) {
			r.Failf("%s: states are not an array of %d values: %v (%s)", q.Model, len(st), err, resp.RunResults.States)
			return
		}
		for i := range sa {
			if !same(fmt.Sprintf("state %d", i), sa[i], st[i]) {
				return
			}
		}
	}
	// log: every missing parameter / input is named, nothing present is reported missing
	has := func(pred func(string) bool) bool {
		for _, l := range resp.Log {
			if pred(l) {
				return true
			}
		}
		return false
	}
	for _, p := range desc.Parameters {
		named := has(func(l string) bool { return strings.HasPrefix(l, p.Name+" not found") })
		missing := contains(missP, p.Name)
		if missing != named {
			r.Failf("%s: parameter %s missing=%v but reported missing=%v (log %q)", q.Model, p.Name, missing, named, resp.Log)
			return
		}
	}
	for _, in := range desc.Inputs {
		named := has(func(l string) bool { return strings.HasPrefix(l, "Missing input: "+in+",") })
		missing := contains(missI, in)
		if missing != named {
			r.Failf("%s: input %s missing=%v but reported missing=%v (log %q)", q.Model, in, missing, named, resp.Log)
			return
		}
	}
	if len(missP) > 0 && len(missI) > 0 {
		r.NonTrivial = true
		r.Label("missing-parameter-and-input")
	}
}

func kindOf(q Req) string {
	if q.Split {
		return "(split)"
	}
	return "(nested)"
}

func contains(l []string, s string) bool {
	for _, x := range l {
		if x == s {
			return true
		}
	}
	return false
}

// (a1) in process, all parameters supplied (no default can take a kernel out of its domain), both encodings
func TestRunnerInProcess(t *testing.T) {
	pbt.Run(t, func(rt *rapid.T) Req { return genReq(rt, true) }, func(q Req) (r pbt.Result) {
		r.Label("model:" + q.Model)
		var buf bytes.Buffer
		sim.RunSingleModelJSON(bytes.NewReader(q.body()), &buf, q.Split)
		dec := json.NewDecoder(&buf)
		var resp response
		if err := dec.Decode(&resp); err != nil {
			r.Failf("%s: response is not JSON: %v", q.Model, err)
			return
		}
		if rest, _ := readAll(dec); strings.TrimSpace(rest) != "" {
			r.Failf("%s: bytes after the JSON document: %q", q.Model, rest)
			return
		}
		compareResponse(q, resp, &r)
		if !q.Split {
			r.Label("nested-encoding")
		}
		r.NonTrivial = r.NonTrivial || len(q.Inputs) > 1
		return
	})
}

func readAll(dec *json.Decoder) (string, error) {
	var b bytes.Buffer
	_, err := b.ReadFrom(dec.Buffered())
	return b.String(), err
}

// ---------------------------------------------------------------------------
// (a2)+(b) through the real ow-single binary

func runChild(body []byte) (stdout, stderr []byte, code int, err error) {
	bin := os.Getenv("VERIF_OWSINGLE")
	cmd := exec.Command(bin)
	cmd.Stdin = bytes.NewReader(body)
	var so, se bytes.Buffer
	cmd.Stdout, cmd.Stderr = &so, &se
	done := make(chan error, 1)
	if err := cmd.Start(); err != nil {
		return nil, nil, -1, err
	}
	go func() { done <- cmd.Wait() }()
	select {
	case e := <-done:
		if e != nil {
			if ee, ok := e.(*exec.ExitError); ok {
				return so.Bytes(), se.Bytes(), ee.ExitCode(), nil
			}
			return so.Bytes(), se.Bytes(), -1, e
		}
	case <-time.After(120 * time.Second):
		cmd.Process.Kill()
		return so.Bytes(), se.Bytes(), -2, fmt.Errorf("timeout")
	}
	return so.Bytes(), se.Bytes(), 0, nil
}

func genRobust(t *rapid.T) Req {
	k := rapid.IntRange(0, 11).Draw(t, "class")
	if k <= 4 {
		q := genReq(t, false) // subsets: defaults are used
		return q
	}
	q := Req{Kind: "raw"}
	names := simref.Names()
	model := rapid.SampledFrom(names).Draw(t, "model")
	num := func() string {
		return rapid.SampledFrom([]string{"0", "1", "-1", "1e308", "1e-320", "1e999", "-0", "0.1", "123456789012345678901234567890", "2.5", "86400"}).Draw(t, "num")
	}
	series := func(n int) string {
		v := make([]string, n)
		for i := range v {
			v[i] = num()
		}
		return "[" + strings.Join(v, ",") + "]"
	}
	desc := simref.New(model).Description()
	switch k {
	case 5: // only a name (no inputs at all)
		q.Raw = fmt.Sprintf(`{"Name":%q}`, model)
	case 6: // unknown / missing / wrongly typed name
		q.Raw = rapid.SampledFrom([]string{`{"Name":"NoSuchModel"}`, `{}`, `{"Name":""}`, `{"Name":42}`, `{"Name":null,"Inputs":[]}`, `[]`, `null`, `"GR4J"`, `{"name":"Sum","inputs":[]}`}).Draw(t, "badname")
	case 7: // unequal series lengths
		var ins []string
		for _, in := range desc.Inputs {
			ins = append(ins, fmt.Sprintf(`{"Name":%q,"Values":%s}`, in, series(rapid.IntRange(0, 6).Draw(t, "len"))))
		}
		q.Raw = fmt.Sprintf(`{"Name":%q,"Inputs":[%s]}`, model, strings.Join(ins, ","))
	case 8: // wrong types inside
		q.Raw = fmt.Sprintf(`{"Name":%q,"Inputs":%s,"Parameters":%s}`, model,
			rapid.SampledFrom([]string{`{}`, `[1,2]`, `"x"`, `[{"Name":1}]`, `[{"Name":"a","Values":"b"}]`, `[{"Values":[1]}]`, `null`}).Draw(t, "badIn"),
			rapid.SampledFrom([]string{`{}`, `[1]`, `[{"Name":"X1","Value":"big"}]`, `[{"Name":"X1"}]`, `null`, `[[]]`}).Draw(t, "badP"))
	case 9: // valid shape, hostile numbers
		var ins, ps []string
		n := rapid.IntRange(1, 5).Draw(t, "n")
		for _, in := range desc.Inputs {
			ins = append(ins, fmt.Sprintf(`{"Name":%q,"Values":%s}`, in, series(n)))
		}
		for _, p := range desc.Parameters {
			if rapid.Bool().Draw(t, "withP") {
				ps = append(ps, fmt.Sprintf(`{"Name":%q,"Value":%s}`, p.Name, num()))
			}
		}
		q.Raw = fmt.Sprintf(`{"Name":%q,"Inputs":[%s],"Parameters":[%s]}`, model, strings.Join(ins, ","), strings.Join(ps, ","))
	case 10: // truncated / trailing garbage around a valid request
		base := string(genReq(t, true).body())
		cut := rapid.IntRange(0, len(base)).Draw(t, "cut")
		q.Raw = rapid.SampledFrom([]string{base[:cut], base + "}", base + base, "\x00" + base, base + "\n\n"}).Draw(t, "mangle")
		if q.Raw == "" {
			q.Raw = " "
		}
	default: // arbitrary bytes
		b := rapid.SliceOfN(rapid.Byte(), 0, 40).Draw(t, "bytes")
		q.Raw = string(b)
		if q.Raw == "" {
			q.Raw = "\n"
		}
	}
	return q
}

func checkChild(q Req) (r pbt.Result) {
	if os.Getenv("VERIF_OWSINGLE") == "" {
		r.Failf("VERIF_OWSINGLE not set (driver must build ow-single)")
		return
	}
	q.Split = true // ow-single always splits
	body := q.body()
	so, se, code, err := runChild(body)
	r.Label("kind:" + q.Kind)
	if err != nil {
		r.Failf("could not run ow-single: %v", err)
		return
	}
	if code != 0 {
		// Known finding K2 (json-runner-kernel-panic): a panic inside a model kernel runs in a cell goroutine and
		// cannot be recovered by the runner; the process dies before it can answer.
		if bytes.Contains(se, []byte("panic:")) && bytes.Contains(se, []byte("openwater-core/models/")) && bytes.Contains(se, []byte(").Run.func1")) {
			r.Hit = append(r.Hit, "json-runner-kernel-panic")
			r.Label("kernel-panic-in-cell-goroutine")
			return
		}
		r.Failf("ow-single exited with status %d on request %q; stderr: %s", code, trunc(string(body), 300), trunc(string(se), 600))
		return
	}
	dec := json.NewDecoder(bytes.NewReader(so))
	var resp response
	if err := dec.Decode(&resp); err != nil {
		r.Failf("ow-single did not answer with a JSON document on request %q: %v; stdout %q", trunc(string(body), 300), err, trunc(string(so), 300))
		return
	}
	if strings.TrimSpace(string(so[dec.InputOffset():])) != "" {
		r.Failf("ow-single wrote more than one JSON document on request %q: extra output %q", trunc(string(body), 300), trunc(string(so[dec.InputOffset():]), 300))
		return
	}
	if q.Kind == "structured" {
		compareResponse(q, resp, &r)
		return
	}
	// not runnable requests must describe the problem
	var probe struct{ Name string }
	// the request is the first JSON value of the stream (bytes after it are not the runner's concern)
	runnable := json.NewDecoder(bytes.NewReader(body)).Decode(&probe) == nil && sim.Catalog[probe.Name] != nil
	if !runnable {
		r.NonTrivial = json.Valid(bytes.TrimSpace(body))
		if len(resp.Log) == 0 {
			r.Failf("request %q is not runnable but the answer has an empty log: %s", trunc(string(body), 200), trunc(string(so), 300))
			return
		}
		if len(resp.RunResults.Outputs) > 0 && string(resp.RunResults.Outputs) != "null" {
			r.Failf("request %q is not runnable but the answer carries outputs: %s", trunc(string(body), 200), trunc(string(so), 300))
			return
		}
	} else {
		r.NonTrivial = true
		// a runnable name with series of unequal length for the model's inputs is a problem to be described
		var raw struct {
			Name   string
			Inputs []struct {
				Name   string
				Values []json.RawMessage
			}
		}
		if json.NewDecoder(bytes.NewReader(body)).Decode(&raw) == nil {
			var ins []NS
			for _, g := range raw.Inputs {
				ins = append(ins, NS{g.Name, make([]pbt.F, len(g.Values))})
			}
			if lens := knownLengths(raw.Name, ins); unequal(lens) {
				r.Label("unequal-input-lengths")
				if len(resp.RunResults.Outputs) > 0 && string(resp.RunResults.Outputs) != "null" {
					r.Failf("request %q has input series of lengths %v, yet the answer carries outputs: %s", trunc(string(body), 200), lens, trunc(string(so), 300))
					return
				}
				if len(resp.Log) == 0 {
					r.Failf("request %q has input series of lengths %v and the answer has an empty log", trunc(string(body), 200), lens)
					return
				}
			}
		}
	}
	return
}

func trunc(s string, n int) string {
	if len(s) > n {
		return s[:n] + "..."
	}
	return s
}

func TestRunnerChildProcess(t *testing.T) { pbt.Run(t, genRobust, checkChild) }

// ---------------------------------------------------------------------------
// (a3) several requests answered by one process (a library caller: libopenwater, a notebook): every answer must be
// the one the request would get on its own, whatever was asked before.  The serving process is this test binary
// re-executed (a kernel panic in a cell goroutine - the known finding - must not take the campaign down).

type HistCase struct{ Reqs []Req }

func genHist(t *rapid.T) HistCase {
	pool := rapid.SliceOfNDistinct(rapid.SampledFrom(scalarModels()), 1, 2, rapid.ID[string]).Draw(t, "models")
	n := rapid.IntRange(2, 5).Draw(t, "n")
	var c HistCase
	for i := 0; i < n; i++ {
		c.Reqs = append(c.Reqs, genReqFor(t, rapid.SampledFrom(pool).Draw(t, "model"), rapid.IntRange(0, 2).Draw(t, "full") == 0))
	}
	return c
}

func serve() {
	var reqs []struct {
		Body  []byte
		Split bool
	}
	if err := json.NewDecoder(os.Stdin).Decode(&reqs); err != nil {
		fmt.Fprintln(os.Stderr, "serve: bad request list:", err)
		os.Exit(3)
	}
	w := json.NewEncoder(os.Stdout)
	for _, q := range reqs {
		var buf bytes.Buffer
		sim.RunSingleModelJSON(bytes.NewReader(q.Body), &buf, q.Split)
		w.Encode(buf.Bytes()) // one base64 line per answer, written before the next request runs
	}
	os.Exit(0)
}

func checkHist(c HistCase) (r pbt.Result) {
	type wire struct {
		Body  []byte
		Split bool
	}
	var l []wire
	for _, q := range c.Reqs {
		l = append(l, wire{q.body(), q.Split})
	}
	in, _ := json.Marshal(l)
	cmd := exec.Command(os.Args[0])
	cmd.Env = append(os.Environ(), "VERIF_C17_SERVE=1")
	cmd.Stdin = bytes.NewReader(in)
	var so, se bytes.Buffer
	cmd.Stdout, cmd.Stderr = &so, &se
	err := cmd.Run()
	var answers [][]byte
	dec := json.NewDecoder(&so)
	for {
		var a []byte
		if dec.Decode(&a) != nil {
			break
		}
		answers = append(answers, a)
	}
	if err != nil {
		if bytes.Contains(se.Bytes(), []byte("panic:")) && bytes.Contains(se.Bytes(), []byte("openwater-core/models/")) && bytes.Contains(se.Bytes(), []byte(").Run.func1")) {
			r.Hit = append(r.Hit, "json-runner-kernel-panic")
			r.Label("kernel-panic-in-cell-goroutine")
		} else {
			r.Failf("the serving process failed after %d of %d answers: %v; stderr: %s", len(answers), len(c.Reqs), err, trunc(se.String(), 600))
			return
		}
	} else if len(answers) != len(c.Reqs) {
		r.Failf("%d requests, %d answers", len(c.Reqs), len(answers))
		return
	}
	// what an earlier request of the history named, per model and parameter
	named := map[string]bool{}
	for i, a := range answers {
		q := c.Reqs[i]
		var resp response
		d := json.NewDecoder(bytes.NewReader(a))
		if err := d.Decode(&resp); err != nil {
			r.Failf("request %d (%s): answer is not JSON: %v", i, q.Model, err)
			return
		}
		if rest, _ := readAll(d); strings.TrimSpace(rest) != "" {
			r.Failf("request %d (%s): bytes after the JSON document: %q", i, q.Model, rest)
			return
		}
		// (the direct run happens in this process: if the runner answered a request whose direct run panics in the
		// kernel, this process dies and the driver reports the case from the write-ahead file - a disagreement too)
		var one pbt.Result
		compareResponse(q, resp, &one)
		if one.Fail != "" {
			r.Failf("request %d of %d in one process: %s", i, len(c.Reqs), one.Fail)
			return
		}
		desc := simref.New(q.Model).Description()
		for _, p := range desc.Parameters {
			has := false
			for _, g := range q.Params {
				has = has || g.Name == p.Name
			}
			if !has && named[q.Model+"/"+p.Name] {
				r.NonTrivial = true
				r.Label("default-after-an-earlier-request-named-the-parameter")
			}
		}
		for _, g := range q.Params {
			named[q.Model+"/"+g.Name] = true
		}
	}
	return
}

func TestRunnerHistoryOneProcess(t *testing.T) { pbt.Run(t, genHist, checkHist) }

func FuzzJsonSafeArray(f *testing.F) { pbt.Fuzz(f, genArr, checkArr) }
