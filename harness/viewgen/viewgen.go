// Package viewgen draws view specifications (a root shape plus a chain of slices and
// an optional reshape) with the contiguity classes forced to be balanced, and builds
// them both on the implementation and on the extensional model.
package viewgen

import (
	"fmt"

	"pgregory.net/rapid"
	"verif/harness/arr"
	vm "verif/harness/viewmodel"
)

type ViewSpec struct {
	Root    []int
	Chain   []vm.SliceSpec `json:",omitempty"`
	Reshape []int          `json:",omitempty"` // applied after the chain when non-nil (same size)
	Class   string
}

// Factor draws a random factorisation of n into 1..3 factors.
func Factor(t *rapid.T, n int, label string) []int {
	k := rapid.IntRange(1, 3).Draw(t, label+".nf")
	out := []int{}
	rem := n
	for i := 0; i < k-1; i++ {
		divs := []int{}
		for d := 1; d <= rem; d++ {
			if rem%d == 0 {
				divs = append(divs, d)
			}
		}
		d := rapid.SampledFrom(divs).Draw(t, label+".f")
		out = append(out, d)
		rem /= d
	}
	out = append(out, rem)
	return out
}

// Draw draws a view spec. If want is non-nil the final view has exactly that shape.
func Draw(t *rapid.T, want []int, maxExt int, label string) ViewSpec {
	class := rapid.SampledFrom([]string{"whole", "rows", "row-gapped", "column", "stepped", "single", "ones", "chain", "chain", "reshaped"}).Draw(t, label+".class")
	vs := ViewSpec{Class: class}
	if want != nil {
		// build a root around the wanted shape
		root, sp := vm.DrawSliceOfShape(t, want, label)
		vs.Root = root
		vs.Chain = []vm.SliceSpec{sp}
		vs.Class = "fitted"
		return vs
	}
	rank := rapid.IntRange(1, 4).Draw(t, label+".rank")
	ext := func() int { return rapid.IntRange(2, maxExt).Draw(t, label+".ext") }
	vs.Root = make([]int, rank)
	for i := range vs.Root {
		vs.Root[i] = ext()
	}
	for vm.Product(vs.Root) > 700 {
		vs.Root = vs.Root[1:]
		rank--
	}
	full := func() vm.SliceSpec {
		return vm.SliceSpec{Loc: make([]int, rank), Dims: append([]int(nil), vs.Root...)}
	}
	switch class {
	case "whole":
		if rapid.Bool().Draw(t, label+".sliceAll") {
			vs.Chain = []vm.SliceSpec{full()}
		}
	case "rows": // leading-dimension block: contiguous
		sp := full()
		sp.Dims[0] = rapid.IntRange(1, vs.Root[0]).Draw(t, label+".n")
		sp.Loc[0] = rapid.IntRange(0, vs.Root[0]-sp.Dims[0]).Draw(t, label+".lo")
		vs.Chain = []vm.SliceSpec{sp}
	case "row-gapped": // part of the last dimension over several rows
		sp := full()
		d := rank - 1
		sp.Dims[d] = rapid.IntRange(1, vs.Root[d]-1).Draw(t, label+".n")
		sp.Loc[d] = rapid.IntRange(0, vs.Root[d]-sp.Dims[d]).Draw(t, label+".lo")
		vs.Chain = []vm.SliceSpec{sp}
	case "column":
		sp := full()
		for d := 1; d < rank; d++ {
			sp.Dims[d] = 1
			sp.Loc[d] = rapid.IntRange(0, vs.Root[d]-1).Draw(t, label+".lo")
		}
		vs.Chain = []vm.SliceSpec{sp}
	case "stepped":
		sp := full()
		sp.Step = make([]int, rank)
		for d := range sp.Step {
			sp.Step[d] = rapid.IntRange(1, 3).Draw(t, label+".st")
			sp.Dims[d] = (vs.Root[d]-1)/sp.Step[d] + 1
		}
		vs.Chain = []vm.SliceSpec{sp}
	case "single":
		sp := full()
		for d := range sp.Dims {
			sp.Dims[d] = 1
			sp.Loc[d] = rapid.IntRange(0, vs.Root[d]-1).Draw(t, label+".lo")
		}
		vs.Chain = []vm.SliceSpec{sp}
	case "ones": // root with dimensions of extent 1
		for d := range vs.Root {
			if rapid.Bool().Draw(t, label+".one") {
				vs.Root[d] = 1
			}
		}
		vs.Chain = []vm.SliceSpec{vm.DrawSlice(t, vs.Root, label+".s")}
	case "chain", "reshaped":
		shape := vs.Root
		n := rapid.IntRange(1, 3).Draw(t, label+".depth")
		for i := 0; i < n; i++ {
			sp := vm.DrawSlice(t, shape, label+".s")
			vs.Chain = append(vs.Chain, sp)
			shape = sp.Dims
		}
		if class == "reshaped" {
			vs.Reshape = Factor(t, vm.Product(shape), label+".rs")
		}
	}
	return vs
}

// Model builds the spec on the extensional model.
func (vs ViewSpec) Model(init []float64) *vm.MV {
	m := vm.NewRoot(init, vs.Root)
	for _, sp := range vs.Chain {
		m = m.Slice(sp.Loc, sp.Dims, sp.Step)
	}
	if vs.Reshape != nil {
		m = m.Reshape(vs.Reshape)
	}
	return m
}

// Real builds the spec on the implementation (panics are returned as errors).
func (vs ViewSpec) Real(root arr.View) (v arr.View, err error) {
	defer func() {
		if r := recover(); r != nil {
			err = fmt.Errorf("panic building view: %v", r)
		}
	}()
	v = root
	for _, sp := range vs.Chain {
		v = v.Slice(sp.Loc, sp.Dims, sp.Step)
	}
	if vs.Reshape != nil {
		v, err = v.Reshape(vs.Reshape)
	}
	return
}

// Shape of the final view.
func (vs ViewSpec) Shape() []int {
	if vs.Reshape != nil {
		return vs.Reshape
	}
	if len(vs.Chain) > 0 {
		return vs.Chain[len(vs.Chain)-1].Dims
	}
	return vs.Root
}
