package c14

import (
	"bytes"
	"encoding/json"
	"fmt"
	"math"
	"os"
	"os/exec"
	"testing"

	"pgregory.net/rapid"
	"verif/harness/pbt"
	"verif/harness/simref"
)

func TestMain(m *testing.M) {
	if os.Getenv("VERIF_C14_SERVE") != "" {
		serve()
		return
	}
	pbt.Main(m, "C14")
}

type HistStep struct {
	SameObject bool // run on the object that will be re-used (same model, other parameters/inputs)
	C          simref.CellCase
}

type Case struct {
	A        simref.CellCase
	Hist     []HistStep
	Cut      int         // causality: inputs after step Cut are replaced (or dropped)
	Tail     [][]float64 // replacement inputs for steps Cut+1.. ([nInputs][T-Cut-1])
	Truncate bool
	// OwnInit: every run of this case starts from the states the model object itself hands out (InitialiseStates),
	// as ow-single and the C entry point do, instead of a state row built by the harness
	OwnInit bool `json:",omitempty"`
	// Siblings (when non-empty): a calibration loop.  Variants of A that differ in ONE parameter (scaled by 1-1/1024)
	// are run first, on fresh objects, then A itself; the result must be bit-identical to A run in a process of
	// its own (this test binary re-executed).  A cache in a package-level variable keyed by too few of the
	// parameters shows here and nowhere else: within one process the first caller's value is simply reused.
	Siblings []int `json:",omitempty"`
}

func genFor(model string) func(t *rapid.T) Case {
	return func(t *rapid.T) Case {
		name := model
		if name == "" {
			name = rapid.SampledFrom(simref.Names()).Draw(t, "model")
			if rapid.IntRange(0, 2).Draw(t, "stateful") == 0 {
				name = rapid.SampledFrom(simref.Stateful()).Draw(t, "smodel")
			}
		}
		c := Case{A: simref.DrawCellCase(t, name, 1, 40)}
		nh := rapid.IntRange(0, 4).Draw(t, "nhist")
		for i := 0; i < nh; i++ {
			if rapid.Bool().Draw(t, "same") {
				c.Hist = append(c.Hist, HistStep{SameObject: true, C: simref.DrawCellCase(t, name, 1, 25)})
			} else {
				other := rapid.SampledFrom(simref.Names()).Draw(t, "other")
				c.Hist = append(c.Hist, HistStep{C: simref.DrawCellCase(t, other, 1, 25)})
			}
		}
		T := c.A.T()
		c.Cut = rapid.IntRange(0, T-1).Draw(t, "cut")
		// (not for RatingCurvePartition: outside its table the kernel is not defined - it panics by design)
		if name != "RatingCurvePartition" && rapid.IntRange(0, 2).Draw(t, "quietPrefix") == 0 {
			// a quiet start: some of the inputs are zero up to the cut and active only later, so a model that
			// looks at its whole input window (instead of one step at a time) behaves differently when the
			// later part is dropped or replaced
			for i := range c.A.Inputs {
				if rapid.Bool().Draw(t, "quietInput") {
					for k := 0; k <= c.Cut; k++ {
						c.A.Inputs[i][k] = 0
					}
					for k := c.Cut + 1; k < T; k++ {
						if c.A.Inputs[i][k] == 0 {
							c.A.Inputs[i][k] = 1 + float64(k%3)
						}
					}
				}
			}
		}
		if len(simref.New(name).Description().Dimensions) == 0 && rapid.IntRange(0, 9).Draw(t, "calibration") == 0 {
			var elig []int
			for i, v := range c.A.Cell {
				if len(v) == 1 && v[0] != 0 && v[0] != math.Floor(v[0]) {
					elig = append(elig, i)
				}
			}
			if len(elig) > 0 {
				for k := rapid.IntRange(1, 3).Draw(t, "nsib"); k > 0; k-- {
					c.Siblings = append(c.Siblings, elig[rapid.IntRange(0, len(elig)-1).Draw(t, "sib")])
				}
				c.Hist = nil
			}
		}
		c.Truncate = rapid.Bool().Draw(t, "truncate")
		c.OwnInit = rapid.IntRange(0, 2).Draw(t, "ownInit") == 0
		if !c.Truncate && c.Cut < T-1 {
			c.Tail = simref.DrawInputs(t, name, c.A.Cell, T-1-c.Cut)
		}
		return c
	}
}

type served struct {
	Out [][]uint64
	Fin []uint64
}

// serve: run one cell case in this (fresh) process and print the result bit for bit.
func serve() {
	var a simref.CellCase
	if err := json.NewDecoder(os.Stdin).Decode(&a); err != nil {
		fmt.Fprintln(os.Stderr, "serve:", err)
		os.Exit(3)
	}
	out, fin := simref.Run1(a.Model, a.Cell, a.Inputs, a.State.Resolve(a.Model, a.Cell))
	var s served
	for _, o := range out {
		row := make([]uint64, len(o))
		for i, v := range o {
			row[i] = math.Float64bits(v)
		}
		s.Out = append(s.Out, row)
	}
	for _, v := range fin {
		s.Fin = append(s.Fin, math.Float64bits(v))
	}
	json.NewEncoder(os.Stdout).Encode(s)
	os.Exit(0)
}

func checkCalibration(c Case) (r pbt.Result) {
	name := c.A.Model
	desc := simref.New(name).Description()
	r.Label("model:" + name)
	r.Label("calibration-loop-vs-fresh-process")
	r.NonTrivial = true
	for _, pi := range c.Siblings {
		cell := make(simref.Cell, len(c.A.Cell))
		for i, v := range c.A.Cell {
			cell[i] = append([]float64(nil), v...)
		}
		cell[pi][0] *= 1 - 1.0/1024
		simref.Run1(name, cell, c.A.Inputs, simref.InitStates(name, cell))
	}
	// (initial states "from an earlier run" are resolved here, after the variants, and in the fresh process alike)
	out, fin := simref.Run1(name, c.A.Cell, c.A.Inputs, c.A.State.Resolve(name, c.A.Cell))
	in, _ := json.Marshal(simref.CellCase{Model: name, Cell: c.A.Cell, Inputs: c.A.Inputs, State: c.A.State})
	cmd := exec.Command(os.Args[0])
	cmd.Env = append(os.Environ(), "VERIF_C14_SERVE=1")
	cmd.Stdin = bytes.NewReader(in)
	var so, se bytes.Buffer
	cmd.Stdout, cmd.Stderr = &so, &se
	if err := cmd.Run(); err != nil {
		r.Failf("%s: the case cannot be run in a process of its own: %v; stderr: %.400s", name, err, se.String())
		return
	}
	var ref served
	if err := json.Unmarshal(so.Bytes(), &ref); err != nil {
		r.Failf("INFRASTRUCTURE: answer of the fresh process: %v (%.200s)", err, so.String())
		return
	}
	for o := range out {
		for t := range out[o] {
			if math.Float64bits(out[o][t]) != ref.Out[o][t] {
				r.Failf("%s: after runs with parameter(s) %v changed by 1/1024, output %s[t=%d] = %v; the same case in a process of its own gives %v", name, c.Siblings, desc.Outputs[o], t, out[o][t], math.Float64frombits(ref.Out[o][t]))
				return
			}
		}
	}
	for j := range fin {
		if math.Float64bits(fin[j]) != ref.Fin[j] {
			r.Failf("%s: after runs with parameter(s) %v changed by 1/1024, final state %d = %v; the same case in a process of its own gives %v", name, c.Siblings, j, fin[j], math.Float64frombits(ref.Fin[j]))
			return
		}
	}
	return
}

func check(c Case) (r pbt.Result) {
	if len(c.Siblings) > 0 {
		return checkCalibration(c)
	}
	name := c.A.Model
	desc := simref.New(name).Description()
	r.Label("model:" + name)
	st0 := c.A.State.Resolve(name, c.A.Cell)
	// the state row given to the model must not be needed again: Resolve twice gives the same row
	if d := simref.DiffBits("resolved states", c.A.State.Resolve(name, c.A.Cell), st0); d != "" {
		r.Failf("%s: the same warm-up run gave different states: %s", name, d)
		return
	}
	if c.OwnInit {
		st0 = nil // Run1 / RunOn then ask the object for its initial states
		r.Label("states-from-the-object's-InitialiseStates")
	}
	out0, fin0 := simref.Run1(name, c.A.Cell, c.A.Inputs, append([]float64(nil), st0...))
	obj := simref.New(name)
	out1, fin1, touched := simref.RunOn(obj, c.A.Cell, c.A.Inputs, append([]float64(nil), st0...))
	if touched != "" {
		r.Failf("%s: Run changed its %s", name, touched)
		return
	}
	if d := simref.DiffOutputs(desc, out0, out1, -1); d != "" {
		r.Failf("%s: two fresh objects disagree: %s", name, d)
		return
	}
	if d := simref.DiffBits("final states", fin0, fin1); d != "" {
		r.Failf("%s: two fresh objects disagree: %s", name, d)
		return
	}
	objs := map[string]bool{name: true}
	for _, h := range c.Hist {
		if h.SameObject {
			hs := h.C.State.Resolve(name, h.C.Cell)
			if c.OwnInit {
				hs = nil
			}
			_, _, tch := simref.RunOn(obj, h.C.Cell, h.C.Inputs, hs)
			if tch != "" {
				r.Failf("%s: Run changed its %s", name, tch)
				return
			}
		} else {
			simref.Run1(h.C.Model, h.C.Cell, h.C.Inputs, h.C.State.Resolve(h.C.Model, h.C.Cell))
			objs[h.C.Model] = true
		}
	}
	out2, fin2, _ := simref.RunOn(obj, c.A.Cell, c.A.Inputs, append([]float64(nil), st0...))
	if d := simref.DiffOutputs(desc, out0, out2, -1); d != "" {
		r.Failf("%s: re-running on the same object after %d other runs changed the result: %s", name, len(c.Hist), d)
		return
	}
	if d := simref.DiffBits("final states", fin0, fin2); d != "" {
		r.Failf("%s: re-running on the same object after %d other runs changed the result: %s", name, len(c.Hist), d)
		return
	}
	out3, fin3 := simref.Run1(name, c.A.Cell, c.A.Inputs, append([]float64(nil), st0...))
	if d := simref.DiffOutputs(desc, out0, out3, -1); d != "" {
		r.Failf("%s: a fresh object after other runs gives a different result: %s", name, d)
		return
	}
	if d := simref.DiffBits("final states", fin0, fin3); d != "" {
		r.Failf("%s: a fresh object after other runs gives a different result: %s", name, d)
		return
	}
	if len(c.Hist)+3 >= 3 && len(objs) >= 2 {
		r.NonTrivial = true
		r.Label("history>=3-runs-2-models")
	}
	// causality
	T := c.A.T()
	in2 := make([][]float64, len(c.A.Inputs))
	for i := range in2 {
		in2[i] = append([]float64(nil), c.A.Inputs[i][:c.Cut+1]...)
		if !c.Truncate && c.Tail != nil {
			in2[i] = append(in2[i], c.Tail[i]...)
		}
	}
	out4, _ := simref.Run1(name, c.A.Cell, in2, append([]float64(nil), st0...))
	if d := simref.DiffOutputs(desc, out0, out4, c.Cut+1); d != "" {
		what := "replacing"
		if c.Truncate {
			what = "dropping"
		}
		r.Failf("%s: %s the inputs after step %d changed an earlier output: %s", name, what, c.Cut, d)
		return
	}
	if c.Cut > 0 && c.Cut < T-1 && len(desc.States) > 0 {
		r.NonTrivial = true
		r.Label("causality-interior-cut-stateful")
	}
	if c.Truncate {
		r.Label("truncate")
	}
	return
}

func TestPureAndCausal(t *testing.T) { pbt.Run(t, genFor(""), check) }

func TestPureAndCausalPerModel(t *testing.T) {
	if pbt.ReplayOnly() {
		pbt.Run(t, genFor(""), check)
		return
	}
	if !pbt.Thorough() {
		t.Skip("thorough only")
	}
	sh, n := pbt.Shard()
	for i, name := range simref.Names() {
		if i%n != sh {
			continue
		}
		name := name
		t.Run(name, func(t *testing.T) { pbt.Run(t, genFor(name), check) })
	}
}
