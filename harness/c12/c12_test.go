package c12

import (
	"fmt"
	"math"
	"testing"

	"pgregory.net/rapid"
	"verif/harness/pbt"
	"verif/harness/simref"
)

func TestMain(m *testing.M) { pbt.Main(m, "C12") }

var models = []string{"LumpedConstituentRouting", "ConstituentDecay", "InstreamFineSediment", "InstreamCoarseSediment",
	"InstreamParticulateNutrient", "StorageParticulateTrapping", "StorageTrapAll", "StorageDissolvedDecay"}

const minimumVolume = 1e-2 // the models' documented minimum-volume threshold (m^3)

type Case struct {
	A      simref.CellCase
	State0 []float64 // initial stored masses (fine sediment: negative channel store = fraction of capacity)
}

var volumeInput = map[string]string{"LumpedConstituentRouting": "storage", "ConstituentDecay": "storage", "InstreamFineSediment": "reachVolume",
	"InstreamParticulateNutrient": "reachVolume", "StorageParticulateTrapping": "storage", "StorageDissolvedDecay": "storageVolume"}

func genFor(model string) func(t *rapid.T) Case {
	return func(t *rapid.T) Case {
		name := model
		if name == "" {
			name = rapid.SampledFrom(models).Draw(t, "model")
		}
		c := Case{A: simref.DrawCellCase(t, name, 1, 40)}
		c.A.State = simref.StateSpec{}
		desc := simref.New(name).Description()
		if name == "StorageDissolvedDecay" {
			c.A.Cell[simref.ParamIndex(desc, "doStorageDecay")] = []float64{0} // the property covers the model with decay disabled
		}
		// near-empty and zero-flow steps: make volume and outflow small or zero together at some steps
		if vi, ok := volumeInput[name]; ok && rapid.IntRange(0, 2).Draw(t, "dry") > 0 {
			vol := c.A.Inputs[simref.InputIndex(desc, vi)]
			out := c.A.Inputs[simref.InputIndex(desc, "outflow")]
			for k := range vol {
				switch rapid.IntRange(0, 7).Draw(t, "drystep") {
				case 0:
					vol[k], out[k] = 0, 0
				case 1:
					vol[k], out[k] = rapid.SampledFrom([]float64{0.001, 0.009, 0.0101, 0.5}).Draw(t, "tinyvol"), 0
				case 2:
					vol[k] = 0
				}
			}
		}
		// fine sediment: overbank steps (flood-plain deposition and channel deposition act on the same load) need an
		// outflow above the bank-full flow, which the generic flow series only exceeds by chance
		if name == "InstreamFineSediment" && rapid.Bool().Draw(t, "overbank") {
			if bff := c.A.Cell[simref.ParamIndex(desc, "bankFullFlow")][0]; bff > 1e-8 {
				out := c.A.Inputs[simref.InputIndex(desc, "outflow")]
				for k := range out {
					if rapid.Bool().Draw(t, "overbankStep") {
						out[k] = bff * (1 + rapid.Float64Range(0.01, 4).Draw(t, "over"))
					}
				}
			}
		}
		// initial stored masses
		c.State0 = make([]float64, len(desc.States))
		if rapid.Bool().Draw(t, "stored0") {
			for j := range c.State0 {
				c.State0[j] = rapid.Float64Range(0, 1e4).Draw(t, "m0")
				if c.State0[j] < 1e-6 {
					c.State0[j] = 0 // a stored mass of 1e-300 kg is a float artefact (mass ratios overflow), not data
				}
			}
		}
		if name == "InstreamFineSediment" && rapid.IntRange(0, 3).Draw(t, "negchan") == 0 {
			c.State0[0] = -rapid.Float64Range(0, 1).Draw(t, "frac")
		}
		return c
	}
}

func check(c Case) (r pbt.Result) {
	name := c.A.Model
	desc := simref.New(name).Description()
	p := func(n string) float64 { return c.A.Cell[simref.ParamIndex(desc, n)][0] }
	in := func(n string, t int) float64 { return c.A.Inputs[simref.InputIndex(desc, n)][t] }
	r.Label("model:" + name)
	T := c.A.T()
	allNonNeg := true
	for _, s := range c.A.Inputs {
		for _, v := range s {
			if v < 0 {
				allNonNeg = false
			}
		}
	}
	branches := map[string]bool{}
	st := append([]float64(nil), c.State0...)
	stepOut := make([][]float64, len(desc.Outputs)) // outputs of the steps taken one at a time
	var sumIn, sumOut, sumSink float64
	stored0, runScale := 0.0, 0.0
	first := true
	for t := 0; t < T; t++ {
		step := make([][]float64, len(c.A.Inputs))
		for i := range step {
			step[i] = c.A.Inputs[i][t : t+1]
		}
		prev := append([]float64(nil), st...)
		out, fin := simref.Run1(name, c.A.Cell, step, append([]float64(nil), st...))
		st = fin
		for k := range stepOut {
			stepOut[k] = append(stepOut[k], out[k][0])
		}
		o := func(n string) float64 { return out[simref.OutputIndex(desc, n)][0] }
		var dt, inM, outM, sink, storedPrev, storedNow, workingVol float64
		flushModel := false
		switch name {
		case "LumpedConstituentRouting":
			dt = p("DeltaT")
			inM = (in("inflowLoad", t) + in("lateralLoad", t) + p("pointInput")) * dt
			outM = o("outflowLoad") * dt
			storedPrev, storedNow = prev[0], fin[0]
			workingVol, flushModel = in("outflow", t)*dt+in("storage", t), true
		case "ConstituentDecay":
			dt = p("DeltaT")
			inM = (in("inflowLoad", t) + in("lateralLoad", t)) * dt
			outM = o("outflowLoad") * dt
			sink = o("decayedLoad") * dt
			storedPrev, storedNow = prev[0], fin[0]
			workingVol, flushModel = in("outflow", t)*dt+in("storage", t), true
			if p("halfLife") > 0 {
				branches["decay"] = true
			} else {
				branches["no-decay"] = true
			}
		case "StorageDissolvedDecay":
			dt = p("DeltaT")
			inM = in("inflowMass", t) * dt
			outM = o("outflowMass") * dt
			sink = o("decayedMass")
			storedPrev, storedNow = prev[0], fin[0]
			workingVol, flushModel = in("outflow", t)*dt+in("storageVolume", t), true
		case "InstreamFineSediment":
			dt = p("durationInSeconds")
			inM = (in("upstreamMass", t) + in("lateralMass", t) + in("reachLocalMass", t)) * dt
			outM = o("loadDownstream") * dt
			chanPrev := prev[0]
			if chanPrev < 0 { // initial value given as a proportion of the capacity
				chanPrev = -chanPrev * p("propBankHeightForFineDep") * p("bankHeight") * p("linkWidth") * p("linkLength") * p("sedBulkDensity") * 1000
				if p("bankFullFlow") <= 1e-8 {
					chanPrev = prev[0] // the lumped branch does not touch the channel store at all
				}
			}
			dep := o("loadToChannelDeposition")
			sink = o("loadToFloodplain") * dt
			storedPrev, storedNow = prev[1]+chanPrev, fin[1]+fin[0]
			workingVol = in("outflow", t)*dt + in("reachVolume", t)
			if p("bankFullFlow") <= 1e-8 {
				branches["lumped"] = true
				flushModel = true
			} else {
				flushModel = workingVol <= 0 // this branch only empties the reach when there is no water at all
				if flushModel {
					workingVol = 0
				}
				if !simref.Close(fin[0], chanPrev+dep, chanPrev+math.Abs(dep), 1e-9) {
					r.Failf("InstreamFineSediment step %d: channel store %v != previous %v + reported net deposition %v", t, fin[0], chanPrev, dep)
					return
				}
				if -dep > chanPrev*(1+1e-9)+1e-9 {
					r.Failf("InstreamFineSediment step %d: remobilised %v kg but the channel store held only %v kg", t, -dep, chanPrev)
					return
				}
				switch {
				case dep > 0:
					branches["deposition"] = true
				case dep < 0:
					branches["remobilisation"] = true
				default:
					branches["no-exchange"] = true
				}
				if sink > 0 {
					branches["floodplain"] = true
				}
			}
		case "InstreamCoarseSediment":
			dt = p("durationInSeconds")
			inM = (in("upstreamMass", t) + in("lateralMass", t) + in("reachLocalMass", t)) * dt
			outM = o("loadDownstream") * dt
			storedPrev, storedNow = prev[0]+prev[1], fin[0]+fin[1]
			workingVol = 1
		case "InstreamParticulateNutrient":
			dt = p("durationInSeconds")
			inM = (in("incomingMassUpstream", t)+in("incomingMassLateral", t))*dt + in("streambankErosion", t)*p("particulateNutrientConcentration")*dt
			outM = o("loadDownstream") * dt
			sink = o("loadToFloodplain") * dt
			storedPrev, storedNow = prev[0]+prev[1], fin[0]+fin[1]
			workingVol, flushModel = in("outflow", t)*dt+in("reachVolume", t), true
			if in("channelDepositionFraction", t) < 0 {
				branches["remobilisation"] = true
			} else if in("channelDepositionFraction", t) > 0 {
				branches["deposition"] = true
			}
			if sink > 0 {
				branches["floodplain"] = true
			}
			if g, w := o("loadFromStreambank"), in("streambankErosion", t)*p("particulateNutrientConcentration"); g != w {
				r.Failf("InstreamParticulateNutrient step %d: loadFromStreambank %v != erosion x concentration %v", t, g, w)
				return
			}
		case "StorageParticulateTrapping":
			dt = p("DeltaT")
			inM = in("inflowLoad", t) * dt
			outM = o("outflowLoad") * dt
			sink = o("trappedMass")
			storedPrev, storedNow = prev[0], fin[0]
			workingVol = in("outflow", t)*dt + in("storage", t)
			if sink > 0 && sink < inM {
				branches["partial-trapping"] = true
			} else if sink == 0 {
				branches["no-trapping"] = true
			} else {
				branches["full-trapping"] = true
			}
			if workingVol == 0 {
				branches["no-water"] = true
			}
		case "StorageTrapAll":
			dt = 1 // the model has no timestep parameter: it reports the incoming rate as the trapped amount
			inM = in("inflowMass", t)
			outM = o("outflowMass")
			sink = o("trappedMass")
			storedPrev, storedNow = prev[0], fin[0]
			workingVol = 1
		}
		if first {
			stored0 = storedPrev
			first = false
		}
		for k, series := range out {
			if !simref.Finite(series[0]) {
				r.Failf("%s step %d: output %s = %v is not finite (inputs %v, states before %v)", name, t, desc.Outputs[k], series[0], stepVals(step), prev)
				return
			}
		}
		for j, v := range fin {
			if !simref.Finite(v) {
				r.Failf("%s step %d: state %s = %v is not finite", name, t, desc.States[j], v)
				return
			}
		}
		scale := math.Abs(storedPrev) + math.Abs(inM) + math.Abs(outM) + math.Abs(sink) + math.Abs(storedNow)
		// a stored total can be the sum of large parts of opposite sign (the particulate-nutrient channel store goes
		// negative when the remobilisation signal asks for more than it holds, by the model's own comment): round-off
		// then scales with the parts, not with their sum
		for j := range fin {
			scale += math.Abs(prev[j]) + math.Abs(fin[j])
		}
		// round-off left over from earlier, larger steps stays in the stored mass: sign checks use the largest magnitude so far
		if scale > runScale {
			runScale = scale
		}
		flushed := flushModel && workingVol < minimumVolume
		if flushed {
			branches["flush"] = true
			// the documented flush: whatever was in the reach is dropped, nothing leaves downstream
			if outM != 0 || (name != "InstreamParticulateNutrient" && name != "InstreamFineSediment" && storedNow != 0) {
				r.Failf("%s step %d: water volume %g below the minimum volume but downstream load %v / stored mass %v are not zero", name, t, workingVol, outM, storedNow)
				return
			}
		} else {
			branches["mixed"] = true
			if !simref.Close(storedPrev+inM, outM+sink+storedNow, scale, 1e-9) {
				r.Failf("%s step %d: mass budget open: stored before %v + in %v = %v, but out %v + deposited/trapped/decayed %v + stored after %v = %v (difference %g kg; working volume %g; parameters %v)",
					name, t, storedPrev, inM, storedPrev+inM, outM, sink, storedNow, outM+sink+storedNow, storedPrev+inM-(outM+sink+storedNow), workingVol, c.A.Cell)
				return
			}
		}
		if allNonNeg && (name != "InstreamParticulateNutrient" || true) {
			if outM < -1e-9*(1+runScale) {
				r.Failf("%s step %d: negative downstream load %v", name, t, outM)
				return
			}
			neg := false
			switch name {
			case "InstreamParticulateNutrient":
				neg = fin[0] < -1e-9*(1+runScale)
			case "InstreamFineSediment":
				// a negative channel store is the documented "proportion of capacity" convention for the initial
				// value; the lumped branch passes it through untouched
				neg = fin[1] < -1e-9*(1+runScale) || (p("bankFullFlow") > 1e-8 && fin[0] < -1e-9*(1+runScale))
				if p("bankFullFlow") <= 1e-8 && fin[0] != prev[0] {
					r.Failf("InstreamFineSediment step %d: lumped branch changed the channel store from %v to %v", t, prev[0], fin[0])
					return
				}
			default:
				for _, v := range fin {
					if v < -1e-9*(1+runScale) {
						neg = true
					}
				}
			}
			if neg {
				r.Failf("%s step %d: negative stored mass %v", name, t, fin)
				return
			}
		}
		if !flushed {
			sumIn += inM
			sumOut += outM
			sumSink += sink
		} else {
			// account the flush as a sink so that the whole-run budget below still closes
			sumIn += inM
			sumSink += storedPrev + inM - storedNow
		}
		_ = storedNow
	}
	final := 0.0
	switch name {
	case "InstreamFineSediment", "InstreamCoarseSediment", "InstreamParticulateNutrient":
		final = st[0] + st[1]
	default:
		final = st[0]
	}
	if !simref.Close(stored0+sumIn, sumOut+sumSink+final, math.Abs(stored0)+sumIn+sumOut+math.Abs(sumSink)+math.Abs(final), 1e-9) {
		r.Failf("%s: whole-run budget open: %v + %v != %v + %v + %v", name, stored0, sumIn, sumOut, sumSink, final)
		return
	}
	// "over any period": the budget above was established step by step; the same series in ONE call must deliver
	// the same loads and final stores (a kernel that works through a long series in blocks is only seen here)
	if T > 1 {
		whole, wfin := simref.Run1(name, c.A.Cell, c.A.Inputs, append([]float64(nil), c.State0...))
		for k := range whole {
			sc := 0.0
			for _, v := range stepOut[k] {
				if a := math.Abs(v); a > sc && !math.IsInf(v, 0) {
					sc = a
				}
			}
			for t := 0; t < T; t++ {
				a, b := whole[k][t], stepOut[k][t]
				if a != b && !(math.Abs(a-b) <= 1e-9*math.Max(math.Abs(a), math.Abs(b))+1e-12*sc+1e-9*runScale*1e-6) {
					r.Failf("%s: output %s[t=%d] = %v when the %d steps are run in one call, %v when they are run one at a time", name, desc.Outputs[k], t, a, T, b)
					return
				}
			}
		}
		for j := range wfin {
			if a, b := wfin[j], st[j]; a != b && !(math.Abs(a-b) <= 1e-9*math.Max(math.Abs(a), math.Abs(b))+1e-9*(1+runScale)*1e-3) {
				r.Failf("%s: final state %d = %v when the %d steps are run in one call, %v when they are run one at a time", name, j, a, T, b)
				return
			}
		}
		if T >= 1023 {
			r.Label("long-series(>=1023 steps in one call)")
		}
	}
	for b := range branches {
		r.Label(name + ":" + b)
	}
	r.NonTrivial = len(branches) >= 2
	return
}

func stepVals(s [][]float64) []float64 {
	r := make([]float64, len(s))
	for i := range s {
		r[i] = s[i][0]
	}
	return r
}

var _ = fmt.Sprint

func TestMassConserved(t *testing.T) { pbt.Run(t, genFor(""), check) }

// Series lengths just past a power of two, once per model and branch, every run (the drawn cases meet a long series
// only now and then): examples of the ordinary generator at a fixed seed with the length forced.
func TestLongSeriesBoundaries(t *testing.T) {
	if pbt.ReplayDirect(t, check) {
		return
	}
	if sh, _ := pbt.Shard(); sh != 0 {
		t.Skip("enumeration runs in shard 0 only")
	}
	for mi, name := range models {
		for _, T := range []int{1025, 4097, 5000} {
			for variant := 0; variant < 2; variant++ {
				name, T, variant := name, T, variant
				c := rapid.Custom(func(rt *rapid.T) Case {
					c := genFor(name)(rt)
					desc := simref.New(name).Description()
					c.A.Inputs = simref.DrawInputs(rt, name, c.A.Cell, T)
					// every series positive and different from step to step at the drawn magnitude: a drawn series
					// can be zero or constant over thousands of steps, which would hide what happens past a block
					for i, sr := range c.A.Inputs {
						top := 0.0
						for _, v := range sr {
							if v > top {
								top = v
							}
						}
						if top == 0 {
							top = 1
						}
						for k := range sr {
							sr[k] = top * (1 + float64((k*(i+3))%7)) / 7
						}
					}
					if name == "InstreamFineSediment" {
						// both branches of the model at this length
						c.A.Cell[simref.ParamIndex(desc, "bankFullFlow")] = []float64{float64(variant) * 10}
					}
					return c
				}).Example(mi*100 + T + variant)
				if !pbt.Direct(t, c, check) {
					return
				}
			}
		}
	}
}

func TestMassConservedPerModel(t *testing.T) {
	if pbt.ReplayOnly() {
		pbt.Run(t, genFor(""), check)
		return
	}
	if !pbt.Thorough() {
		t.Skip("thorough only")
	}
	sh, n := pbt.Shard()
	for i, name := range models {
		if i%n != sh%len(models) {
			continue
		}
		name := name
		t.Run(name, func(t *testing.T) { pbt.Run(t, genFor(name), check) })
	}
}

func FuzzMassConserved(f *testing.F) { pbt.Fuzz(f, genFor(""), check) }
