package c02

import (
	"fmt"
	"testing"

	"github.com/flowmatters/openwater-core/data"
	"pgregory.net/rapid"
	"verif/harness/pbt"
	vm "verif/harness/viewmodel"
	"verif/harness/vops"
)

func TestMain(m *testing.M) { pbt.Main(m, "C02") }

func TestViewOperations(t *testing.T) { pbt.Run(t, vops.Gen, vops.Check) }

var unflatten = vops.Unflatten

// ---------------------------------------------------------------------------
// integer index helpers against their arithmetic definitions

type HCase struct {
	Dims []int
	Vec  []int // arbitrary vector (Argmax / Maximum / Multiply / Product)
	Vec2 []int
	Pos  int
}

func genH(t *rapid.T) HCase {
	n := rapid.IntRange(1, 5).Draw(t, "rank")
	h := HCase{Dims: make([]int, n), Vec: make([]int, n), Vec2: make([]int, n)}
	for i := 0; i < n; i++ {
		h.Dims[i] = rapid.IntRange(1, 6).Draw(t, "dim")
		h.Vec[i] = rapid.IntRange(-4, 4).Draw(t, "v")
		h.Vec2[i] = rapid.IntRange(-9, 9).Draw(t, "w")
	}
	h.Pos = rapid.IntRange(0, vm.Product(h.Dims)-1).Draw(t, "pos")
	return h
}

func checkH(h HCase) (r pbt.Result) {
	n := len(h.Dims)
	r.NonTrivial = n >= 2
	size := 1
	for _, d := range h.Dims {
		size *= d
	}
	if p := data.Product(h.Dims); p != size {
		r.Failf("Product(%v) = %d", h.Dims, p)
		return
	}
	off := data.Offsets(h.Dims)
	for i := 0; i < n; i++ {
		w := 1
		for j := i + 1; j < n; j++ {
			w *= h.Dims[j]
		}
		if off[i] != w {
			r.Failf("Offsets(%v) = %v, element %d should be %d", h.Dims, off, i, w)
			return
		}
	}
	idx := data.IDivMod(h.Pos, off, h.Dims)
	want := unflatten(h.Pos, h.Dims)
	if fmt.Sprint(idx) != fmt.Sprint(want) {
		r.Failf("IDivMod(%d, %v, %v) = %v, want %v", h.Pos, off, h.Dims, idx, want)
		return
	}
	// Increment walks row-major order and wraps to zero after the last index
	cur := append([]int(nil), want...)
	data.Increment(cur, h.Dims)
	nxt := unflatten((h.Pos+1)%size, h.Dims)
	if fmt.Sprint(cur) != fmt.Sprint(nxt) {
		r.Failf("Increment(%v wrt %v) = %v, want %v", want, h.Dims, cur, nxt)
		return
	}
	m := data.Multiply(h.Vec, h.Vec2)
	for i := range m {
		if m[i] != h.Vec[i]*h.Vec2[i] {
			r.Failf("Multiply(%v,%v) = %v", h.Vec, h.Vec2, m)
			return
		}
	}
	mx, am := h.Vec[0], 0
	for i, v := range h.Vec {
		if v > mx {
			mx, am = v, i
		}
	}
	if g := data.Maximum(h.Vec); g != mx {
		r.Failf("Maximum(%v) = %d", h.Vec, g)
		return
	}
	if g := data.Argmax(h.Vec); g != am {
		r.Failf("Argmax(%v) = %d, first index of the maximum is %d", h.Vec, g, am)
		return
	}
	if am > 0 {
		r.Label("argmax-not-first")
	}
	return
}

func TestIndexHelpers(t *testing.T) { pbt.Run(t, genH, checkH) }

func FuzzViewOperations(f *testing.F) { pbt.Fuzz(f, vops.Gen, vops.Check) }

func FuzzIndexHelpers(f *testing.F) { pbt.Fuzz(f, genH, checkH) }
