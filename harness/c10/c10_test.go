package c10

import (
	"fmt"
	"math"
	"testing"

	"pgregory.net/rapid"
	"verif/harness/pbt"
	"verif/harness/simref"
)

func TestMain(m *testing.M) { pbt.Main(m, "C10") }

var models = []string{"GR4J", "Sacramento", "Simhyd", "Surm", "RunoffCoefficient"}

type Case struct {
	A    simref.CellCase
	Cuts []int // extra prefix lengths at which the stores are observed (final states of the prefix run)
}

func genFor(model string) func(t *rapid.T) Case {
	return func(t *rapid.T) Case {
		name := model
		if name == "" {
			name = rapid.SampledFrom(models).Draw(t, "model")
		}
		maxT := 80
		if pbt.Thorough() {
			maxT = 400
			if rapid.IntRange(0, 19).Draw(t, "long") == 0 {
				maxT = 3000
			}
		}
		minT := 1
		if rapid.IntRange(0, 2).Draw(t, "longEnough") > 0 {
			minT = 20
		}
		c := Case{A: simref.DrawCellCase(t, name, minT, maxT)}
		if rapid.Bool().Draw(t, "stormy") {
			simref.Stormy(t, c.A.Inputs[0])
		}
		if name == "GR4J" {
			// classes: x2 <= 0 (no import of water), and the exactly closing case x2 = 0, PET = 0
			k := rapid.IntRange(0, 3).Draw(t, "gr4jclass")
			if k <= 1 && c.A.Cell[1][0] > 0 {
				c.A.Cell[1][0] = -c.A.Cell[1][0]
			}
			if k == 0 {
				c.A.Cell[1][0] = 0
				for i := range c.A.Inputs[1] {
					c.A.Inputs[1][i] = 0
				}
				if c.A.State.Warm != nil {
					for i := range c.A.State.Warm[1] {
						c.A.State.Warm[1][i] = 0
					}
				}
			}
		}
		T := c.A.T()
		for i := rapid.IntRange(0, 4).Draw(t, "ncuts"); i > 0; i-- {
			c.Cuts = append(c.Cuts, rapid.IntRange(1, T).Draw(t, "cut"))
		}
		return c
	}
}

const eps = 1e-9

func nonneg(v, scale float64) bool { return v >= -eps*(1+scale) }
func leq(a, b, scale float64) bool { return a <= b+eps*(1+scale) }

func check(c Case) (r pbt.Result) {
	name := c.A.Model
	desc := simref.New(name).Description()
	p := func(n string) float64 { return c.A.Cell[simref.ParamIndex(desc, n)][0] }
	r.Label("model:" + name)
	st0 := c.A.State.Resolve(name, c.A.Cell)
	rain := c.A.Inputs[0]
	T := len(rain)
	out, fin := simref.Run1(name, c.A.Cell, c.A.Inputs, append([]float64(nil), st0...))
	o := func(n string) []float64 { return out[simref.OutputIndex(desc, n)] }

	// non-triviality: a storm, a dry spell of >= 5 steps, and length >= 20
	storm, dry, run := false, false, 0
	for _, x := range rain {
		if x > 20 {
			storm = true
		}
		if x == 0 {
			run++
			if run >= 5 {
				dry = true
			}
		} else {
			run = 0
		}
	}
	r.NonTrivial = storm && dry && T >= 20
	if storm {
		r.Label("storm")
	}
	if dry {
		r.Label("dry-spell>=5")
	}
	if T >= 300 {
		r.Label("long-series")
	}

	sumRain := simref.Sum(rain)
	scale := sumRain
	for _, s := range st0 {
		scale += math.Abs(s)
	}
	// every output finite and non-negative
	for k, series := range out {
		for t, v := range series {
			if !simref.Finite(v) {
				r.Failf("%s: output %s[%d] = %v is not finite", name, desc.Outputs[k], t, v)
				return
			}
			if !nonneg(v, rain[t]) {
				r.Failf("%s: output %s[%d] = %v is negative (rain %v)", name, desc.Outputs[k], t, v, rain[t])
				return
			}
		}
	}
	// stores within [0, capacity]: at the end and at every cut
	obs := [][]float64{fin}
	for _, cut := range c.Cuts {
		in := make([][]float64, len(c.A.Inputs))
		for i := range in {
			in[i] = c.A.Inputs[i][:cut]
		}
		_, f := simref.Run1(name, c.A.Cell, in, append([]float64(nil), st0...))
		obs = append(obs, f)
	}
	obs = append(obs, st0)
	type cap struct {
		idx  int
		name string
		max  float64
	}
	var caps []cap
	switch name {
	case "GR4J":
		caps = []cap{{0, "production store S", p("X1")}, {1, "routing store R", p("X3")}}
	case "Sacramento":
		caps = []cap{{0, "UprTensionWater", p("uztwm")}, {1, "UprFreeWater", p("uzfwm")}, {2, "LwrTensionWater", p("lztwm")},
			{3, "LwrPrimaryFreeWater", p("lzfpm")}, {4, "LwrSupplFreeWater", p("lzfsm")}, {5, "AdditionalImperviousStore", math.Inf(1)}} // no capacity parameter exists for this store: only non-negativity is asserted
	case "Simhyd":
		caps = []cap{{0, "SoilMoistureStore", p("soilMoistureStoreCapacity")}, {1, "Groundwater", math.Inf(1)}}
	case "Surm":
		caps = []cap{{0, "SoilMoistureStore", p("smax")}, {1, "Groundwater", math.Inf(1)}}
	}
	for oi, f := range obs {
		for _, cp := range caps {
			v := f[cp.idx]
			if !simref.Finite(v) || !nonneg(v, cp.max) || (!math.IsInf(cp.max, 1) && !leq(v, cp.max, cp.max)) {
				r.Failf("%s: store %s = %v outside [0, %v] (observation %d of %d; parameters %v)", name, cp.name, v, cp.max, oi, len(obs), c.A.Cell)
				return
			}
		}
		if name == "GR4J" {
			for j := 4; j < len(f); j++ {
				if !nonneg(f[j], scale) {
					r.Failf("GR4J: unit-hydrograph store %d = %v is negative", j-4, f[j])
					return
				}
			}
		}
	}
	if name == "Simhyd" || name == "Surm" {
		// the store output is reported every step
		lim := caps[0].max
		for t, v := range o("store") {
			if name == "Simhyd" && !leq(v, lim, lim) {
				r.Failf("Simhyd: store[%d] = %v exceeds the capacity %v", t, v, lim)
				return
			}
		}
	}

	// components add up to the total
	comp := func(total, a, b string) bool {
		for t := range o(total) {
			if !simref.Close(o(total)[t], o(a)[t]+o(b)[t], o(total)[t], eps) {
				r.Failf("%s: %s[%d] = %v but %s + %s = %v", name, total, t, o(total)[t], a, b, o(a)[t]+o(b)[t])
				return false
			}
		}
		return true
	}
	sumOut := 0.0
	initial := 0.0
	switch name {
	case "RunoffCoefficient":
		for t, v := range o("runoff") {
			if v != p("coeff")*rain[t] {
				r.Failf("RunoffCoefficient: runoff[%d] = %v, coeff*rain = %v", t, v, p("coeff")*rain[t])
				return
			}
		}
		sumOut = simref.Sum(o("runoff"))
	case "Simhyd", "Surm":
		if !comp("runoff", "quickflow", "baseflow") {
			return
		}
		sumOut = simref.Sum(o("runoff"))
		initial = st0[0] + st0[1]
	case "Sacramento":
		if !comp("runoff", "surfaceRunoff", "baseflow") {
			return
		}
		sumOut = simref.Sum(o("runoff")) + simref.Sum(o("actualET"))
		for _, s := range st0 {
			initial += s
		}
		initial *= 1 + p("side")
	case "GR4J":
		sumOut = simref.Sum(o("runoff"))
		initial = st0[0] + st0[1]
		for j := 4; j < len(st0); j++ {
			initial += st0[j]
		}
	}
	// cumulative runoff (+ reported actual ET) never exceeds cumulative rainfall + initial storage
	budgetApplies := name != "GR4J" || p("X2") <= 0 // a positive exchange coefficient imports water by definition
	if budgetApplies && !leq(sumOut, sumRain+initial, scale) {
		r.Failf("%s creates water: cumulative outflow %v > cumulative rainfall %v + initial storage %v (excess %g)", name, sumOut, sumRain, initial, sumOut-sumRain-initial)
		return
	}
	if name == "GR4J" && p("X2") == 0 && simref.Sum(c.A.Inputs[1]) == 0 {
		r.Label("gr4j-closed-balance")
		final := fin[0] + fin[1]
		for j := 4; j < len(fin); j++ {
			final += fin[j]
		}
		if !simref.Close(sumRain, sumOut+final-initial, scale, eps) {
			r.Failf("GR4J (x2=0, PET=0): rainfall %v != runoff %v + change in stores %v (residual %g)", sumRain, sumOut, final-initial, sumRain-sumOut-(final-initial))
			return
		}
	}
	_ = fmt.Sprint
	return
}

func TestNoWaterCreated(t *testing.T) { pbt.Run(t, genFor(""), check) }

func TestNoWaterCreatedPerModel(t *testing.T) {
	if pbt.ReplayOnly() {
		pbt.Run(t, genFor(""), check)
		return
	}
	if !pbt.Thorough() {
		t.Skip("thorough only")
	}
	sh, n := pbt.Shard()
	for i, name := range models {
		if i%n != sh%len(models) && n >= len(models) {
			continue
		}
		name := name
		t.Run(name, func(t *testing.T) { pbt.Run(t, genFor(name), check) })
	}
}
