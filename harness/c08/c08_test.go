package c08

import (
	"encoding/binary"
	"fmt"
	"math"
	"os"
	"path/filepath"
	"sort"
	"strings"
	"testing"

	"github.com/flowmatters/openwater-core/data"
	owio "github.com/flowmatters/openwater-core/io"
	"gonum.org/v1/hdf5"
	"pgregory.net/rapid"
	"verif/harness/arr"
	"verif/harness/pbt"
	vg "verif/harness/viewgen"
	vm "verif/harness/viewmodel"
)

func TestMain(m *testing.M) { pbt.Main(m, "C08") }

// ---------------------------------------------------------------------------
// typed access to the eight H5Ref<T> types

type ref struct {
	load       func(fn, ds string, sl [][]int) (interface{}, error)
	write      func(fn, ds string, v interface{}) error
	writeSlice func(fn, ds string, v interface{}, loc []int) error
	create     func(fn, ds string, shape []int, compress bool) error
}

var refs = map[string]ref{
	"float64": {
		func(fn, ds string, sl [][]int) (interface{}, error) { return owio.H5RefFloat64{fn, ds, sl}.Load() },
		func(fn, ds string, v interface{}) error {
			return owio.H5RefFloat64{fn, ds, nil}.Write(v.(data.NDFloat64))
		},
		func(fn, ds string, v interface{}, loc []int) error {
			return owio.H5RefFloat64{fn, ds, nil}.WriteSlice(v.(data.NDFloat64), loc)
		},
		func(fn, ds string, shape []int, c bool) error {
			return owio.H5RefFloat64{fn, ds, nil}.Create(shape, math.NaN(), c)
		}},
	"float32": {
		func(fn, ds string, sl [][]int) (interface{}, error) { return owio.H5RefFloat32{fn, ds, sl}.Load() },
		func(fn, ds string, v interface{}) error {
			return owio.H5RefFloat32{fn, ds, nil}.Write(v.(data.NDFloat32))
		},
		func(fn, ds string, v interface{}, loc []int) error {
			return owio.H5RefFloat32{fn, ds, nil}.WriteSlice(v.(data.NDFloat32), loc)
		},
		func(fn, ds string, shape []int, c bool) error {
			return owio.H5RefFloat32{fn, ds, nil}.Create(shape, 0, c)
		}},
	"int32": {
		func(fn, ds string, sl [][]int) (interface{}, error) { return owio.H5RefInt32{fn, ds, sl}.Load() },
		func(fn, ds string, v interface{}) error { return owio.H5RefInt32{fn, ds, nil}.Write(v.(data.NDInt32)) },
		func(fn, ds string, v interface{}, loc []int) error {
			return owio.H5RefInt32{fn, ds, nil}.WriteSlice(v.(data.NDInt32), loc)
		},
		func(fn, ds string, shape []int, c bool) error {
			return owio.H5RefInt32{fn, ds, nil}.Create(shape, 0, c)
		}},
	"uint32": {
		func(fn, ds string, sl [][]int) (interface{}, error) { return owio.H5RefUint32{fn, ds, sl}.Load() },
		func(fn, ds string, v interface{}) error {
			return owio.H5RefUint32{fn, ds, nil}.Write(v.(data.NDUint32))
		},
		func(fn, ds string, v interface{}, loc []int) error {
			return owio.H5RefUint32{fn, ds, nil}.WriteSlice(v.(data.NDUint32), loc)
		},
		func(fn, ds string, shape []int, c bool) error {
			return owio.H5RefUint32{fn, ds, nil}.Create(shape, 0, c)
		}},
	"int64": {
		func(fn, ds string, sl [][]int) (interface{}, error) { return owio.H5RefInt64{fn, ds, sl}.Load() },
		func(fn, ds string, v interface{}) error { return owio.H5RefInt64{fn, ds, nil}.Write(v.(data.NDInt64)) },
		func(fn, ds string, v interface{}, loc []int) error {
			return owio.H5RefInt64{fn, ds, nil}.WriteSlice(v.(data.NDInt64), loc)
		},
		func(fn, ds string, shape []int, c bool) error {
			return owio.H5RefInt64{fn, ds, nil}.Create(shape, 0, c)
		}},
	"uint64": {
		func(fn, ds string, sl [][]int) (interface{}, error) { return owio.H5RefUint64{fn, ds, sl}.Load() },
		func(fn, ds string, v interface{}) error {
			return owio.H5RefUint64{fn, ds, nil}.Write(v.(data.NDUint64))
		},
		func(fn, ds string, v interface{}, loc []int) error {
			return owio.H5RefUint64{fn, ds, nil}.WriteSlice(v.(data.NDUint64), loc)
		},
		func(fn, ds string, shape []int, c bool) error {
			return owio.H5RefUint64{fn, ds, nil}.Create(shape, 0, c)
		}},
	"int": {
		func(fn, ds string, sl [][]int) (interface{}, error) { return owio.H5RefInt{fn, ds, sl}.Load() },
		func(fn, ds string, v interface{}) error { return owio.H5RefInt{fn, ds, nil}.Write(v.(data.NDInt)) },
		func(fn, ds string, v interface{}, loc []int) error {
			return owio.H5RefInt{fn, ds, nil}.WriteSlice(v.(data.NDInt), loc)
		},
		func(fn, ds string, shape []int, c bool) error { return owio.H5RefInt{fn, ds, nil}.Create(shape, 0, c) }},
	"uint": {
		func(fn, ds string, sl [][]int) (interface{}, error) { return owio.H5RefUint{fn, ds, sl}.Load() },
		func(fn, ds string, v interface{}) error { return owio.H5RefUint{fn, ds, nil}.Write(v.(data.NDUint)) },
		func(fn, ds string, v interface{}, loc []int) error {
			return owio.H5RefUint{fn, ds, nil}.WriteSlice(v.(data.NDUint), loc)
		},
		func(fn, ds string, shape []int, c bool) error { return owio.H5RefUint{fn, ds, nil}.Create(shape, 0, c) }},
}

// ---------------------------------------------------------------------------
// history

type Op struct {
	Kind     string // create write writeSlice load probe
	File     int
	Path     string
	Typ      string
	Shape    []int       `json:",omitempty"`
	Compress bool        `json:",omitempty"`
	Src      vg.ViewSpec `json:",omitempty"`
	SrcC     bool        `json:",omitempty"`
	Loc      []int       `json:",omitempty"`
	Sel      [][]int     `json:",omitempty"`
	Empty    bool        `json:",omitempty"` // selection with an empty dimension (separate class)
	// Reuse = k+1: this load passes the very same [][]int object that load k passed (a caller keeping one
	// H5Ref.Slice for several loads, as ow-sim's GetReference does); Sel repeats k's generated values
	Reuse int `json:",omitempty"`
}

type Case struct{ Ops []Op }

type mds struct {
	typ   string
	shape []int
	vals  []float64
}

type mfile struct {
	exists bool
	ds     map[string]*mds
	order  map[string][]string // group path -> child names in creation order
}

func newMFile() *mfile { return &mfile{ds: map[string]*mds{}, order: map[string][]string{"/": nil}} }

func (f *mfile) addPath(path string) {
	parts := strings.Split(strings.Trim(path, "/"), "/")
	cur := "/"
	for _, p := range parts {
		found := false
		for _, c := range f.order[cur] {
			if c == p {
				found = true
			}
		}
		if !found {
			f.order[cur] = append(f.order[cur], p)
		}
		if cur == "/" {
			cur = "/" + p
		} else {
			cur = cur + "/" + p
		}
	}
}

var bases = []string{"/d", "/g/d", "/g/e", "/g/h/f", "/MODELS/m/x"}

func gen(t *rapid.T) Case {
	var c Case
	files := []*mfile{newMFile(), newMFile()}
	n := rapid.IntRange(1, 25).Draw(t, "nops")
	for i := 0; i < n; i++ {
		fi := rapid.IntRange(0, 1).Draw(t, "file")
		f := files[fi]
		typ := rapid.SampledFrom(arr.Types).Draw(t, "type")
		if rapid.IntRange(0, 2).Draw(t, "f64") == 0 {
			typ = "float64"
		}
		path := rapid.SampledFrom(bases).Draw(t, "path") + "_" + typ
		// prefer datasets that exist
		if len(f.ds) > 0 && rapid.IntRange(0, 2).Draw(t, "existing") > 0 {
			var ks []string
			for k := range f.ds {
				ks = append(ks, k)
			}
			sort.Strings(ks)
			path = rapid.SampledFrom(ks).Draw(t, "epath")
			typ = f.ds[path].typ
		}
		cur := f.ds[path]
		kinds := []string{"create", "write", "write", "probe"}
		if cur != nil {
			kinds = append(kinds, "writeSlice", "writeSlice", "load", "load", "load", "load")
		}
		op := Op{Kind: rapid.SampledFrom(kinds).Draw(t, "kind"), File: fi, Path: path, Typ: typ}
		switch op.Kind {
		case "create":
			op.Shape = vm.DrawDims(t, 3, 6, "shape")
			if cur != nil && rapid.Bool().Draw(t, "sameShape") {
				op.Shape = append([]int(nil), cur.shape...)
			}
			op.Compress = rapid.IntRange(0, 5).Draw(t, "compress") == 0
			if cur == nil && !op.Compress {
				f.exists = true
				f.ds[path] = &mds{typ: typ, shape: op.Shape, vals: make([]float64, vm.Product(op.Shape))}
				f.addPath(path)
			}
			if cur == nil && op.Compress {
				// refused by the library; intermediate groups may or may not have been created: file state for
				// listings is not modelled after this, only dataset contents
				f.exists = true
				f.addPath(filepath.Dir(path))
			}
		case "write":
			var shape []int
			if cur != nil && rapid.IntRange(0, 4).Draw(t, "sameShape") > 0 {
				shape = cur.shape
			} else {
				shape = vm.DrawDims(t, 3, 6, "shape")
			}
			op.Src = vg.Draw(t, shape, 6, "src")
			op.Shape = append([]int(nil), shape...)
			op.SrcC = rapid.Bool().Draw(t, "srcC")
			if cur == nil {
				f.exists = true
				f.ds[path] = &mds{typ: typ, shape: op.Shape, vals: make([]float64, vm.Product(op.Shape))}
				f.addPath(path)
			}
		case "writeSlice":
			rank := len(cur.shape)
			op.Shape, op.Loc = make([]int, rank), make([]int, rank)
			for d := 0; d < rank; d++ {
				op.Shape[d] = rapid.IntRange(1, cur.shape[d]).Draw(t, "blk")
				op.Loc[d] = rapid.IntRange(0, cur.shape[d]-op.Shape[d]).Draw(t, "loc")
			}
			op.Src = vg.Draw(t, op.Shape, 6, "src")
			op.SrcC = rapid.Bool().Draw(t, "srcC")
		case "load":
			var cands []int
			for k, o := range c.Ops {
				if o.Kind != "load" || o.Sel == nil || o.Empty || len(o.Sel) != len(cur.shape) {
					continue
				}
				ok := true
				for d, s := range o.Sel {
					if s != nil && s[0] >= cur.shape[d] {
						ok = false
					}
				}
				if ok {
					cands = append(cands, k)
				}
			}
			if len(cands) > 0 && rapid.IntRange(0, 2).Draw(t, "reuse") == 0 {
				k := cands[rapid.IntRange(0, len(cands)-1).Draw(t, "reuseOf")]
				op.Reuse = k + 1
				op.Sel = copySel(c.Ops[k].Sel)
			} else if rapid.IntRange(0, 3).Draw(t, "whole") > 0 {
				op.Sel = make([][]int, len(cur.shape))
				any := false
				for d, nd := range cur.shape {
					if rapid.IntRange(0, 3).Draw(t, "nilDim") == 0 {
						continue
					}
					any = true
					start := rapid.IntRange(0, nd-1).Draw(t, "start")
					stop := rapid.IntRange(start+1, nd+3).Draw(t, "stop")
					if rapid.IntRange(0, 7).Draw(t, "farStop") == 0 {
						// "to the end" written as a very large stop
						stop = rapid.SampledFrom(farStops).Draw(t, "far")
					}
					step := rapid.IntRange(1, 4).Draw(t, "step")
					if rapid.IntRange(0, 14).Draw(t, "empty") == 0 {
						stop = rapid.IntRange(0, start).Draw(t, "estop")
						op.Empty = true
					}
					op.Sel[d] = []int{start, stop, step}
				}
				if !any && rapid.Bool().Draw(t, "nilSel") {
					op.Sel = nil
				}
			}
		}
		c.Ops = append(c.Ops, op)
	}
	return c
}

func copySel(sel [][]int) [][]int {
	if sel == nil {
		return nil
	}
	out := make([][]int, len(sel))
	for d, s := range sel {
		if s != nil {
			out[d] = append([]int(nil), s...)
		}
	}
	return out
}

func val(typ string, k int) float64 {
	if arr.IsFloat(typ) {
		return float64(k) + 0.5
	}
	return float64(k)
}

// decode a dataset's raw bytes (independently of io.Load)
func decodeRaw(typ string, size int, raw []byte) []float64 {
	n := len(raw) / size
	out := make([]float64, n)
	for i := 0; i < n; i++ {
		b := raw[i*size:]
		switch typ {
		case "float64":
			out[i] = math.Float64frombits(binary.LittleEndian.Uint64(b))
		case "float32":
			out[i] = float64(math.Float32frombits(binary.LittleEndian.Uint32(b)))
		case "int32":
			out[i] = float64(int32(binary.LittleEndian.Uint32(b)))
		case "uint32":
			out[i] = float64(binary.LittleEndian.Uint32(b))
		case "int64":
			out[i] = float64(int64(binary.LittleEndian.Uint64(b)))
		case "uint64":
			out[i] = float64(binary.LittleEndian.Uint64(b))
		default:
			return nil
		}
	}
	return out
}

var lockViolations []string

func lockProbe(op string, mutating bool) {
	mu := owio.VerifMutex()
	if mu.TryLock() {
		mu.Unlock()
		lockViolations = append(lockViolations, fmt.Sprintf("%s entered without the package lock", op))
		return
	}
	if mutating && mu.TryRLock() {
		mu.RUnlock()
		lockViolations = append(lockViolations, fmt.Sprintf("%s (mutating) entered with the lock held shared, not exclusively", op))
	}
}

var caseSeq int

func intTyp(t string) bool { return t == "int" || t == "uint" }

func check(c Case) (r pbt.Result) {
	hdf5.Reset()
	hdf5.Hook = lockProbe
	lockViolations = nil
	defer func() { hdf5.Hook = nil }()
	caseSeq++
	dir := os.Getenv("VERIF_WORK")
	if dir == "" {
		dir = os.TempDir()
	}
	names := []string{filepath.Join(dir, fmt.Sprintf("c08_%d_a.h5", caseSeq)), filepath.Join(dir, fmt.Sprintf("c08_%d_b.h5", caseSeq))}
	defer hdf5.Reset()
	files := []*mfile{newMFile(), newMFile()}
	counter := 100
	k9 := false

	verifyAll := func(step int, what string) bool {
		if len(lockViolations) > 0 {
			r.Failf("op %d (%s): %s", step, what, lockViolations[0])
			return false
		}
		for fi, f := range files {
			var paths []string
			for p := range f.ds {
				paths = append(paths, p)
			}
			sort.Strings(paths)
			for _, p := range paths {
				m := f.ds[p]
				size, dims, raw, ok := hdf5.FakeRaw(names[fi], p)
				if !ok {
					r.Failf("op %d (%s): dataset %s of file %d vanished", step, what, p, fi)
					return false
				}
				if fmt.Sprint(dims) != fmt.Sprint(m.shape) {
					r.Failf("op %d (%s): dataset %s has extent %v, model %v", step, what, p, dims, m.shape)
					return false
				}
				if intTyp(m.typ) {
					continue // finding K9: values of Go int/uint datasets are not comparable (see below)
				}
				got := decodeRaw(m.typ, size, raw)
				for i := range m.vals {
					if !eqv(got[i], m.vals[i]) {
						r.Failf("op %d (%s): dataset %s (file %d) element %d holds %v, model %v (only the addressed region may change)", step, what, p, fi, i, got[i], m.vals[i])
						return false
					}
				}
				// and through the API: whole-dataset Load
				lv, err := refs[m.typ].load(names[fi], p, nil)
				if err != nil {
					r.Failf("op %d (%s): Load of %s failed: %v", step, what, p, err)
					return false
				}
				v := arr.Wrap(m.typ, lv)
				if fmt.Sprint(v.Shape()) != fmt.Sprint(m.shape) {
					r.Failf("op %d (%s): Load of %s has shape %v, model %v", step, what, p, v.Shape(), m.shape)
					return false
				}
				un := v.Unroll()
				for i := range m.vals {
					if !eqv(un[i], m.vals[i]) {
						r.Failf("op %d (%s): Load of %s element %d = %v, model %v", step, what, p, i, un[i], m.vals[i])
						return false
					}
				}
			}
		}
		return true
	}

	passed := map[int][][]int{} // the selection objects handed to Load, by op index
	for si, op := range c.Ops {
		f := files[op.File]
		fn := names[op.File]
		cur := f.ds[op.Path]
		rf := refs[op.Typ]
		what := fmt.Sprintf("%s %s", op.Kind, op.Path)
		r.Label("type:" + op.Typ)
		switch op.Kind {
		case "create":
			err := rf.create(fn, op.Path, op.Shape, op.Compress)
			switch {
			case cur != nil:
				same := fmt.Sprint(cur.shape) == fmt.Sprint(op.Shape)
				if same && err != nil {
					r.Failf("op %d: re-creating %s with the same shape failed: %v", si, op.Path, err)
					return
				}
				if !same && err == nil {
					r.Failf("op %d: re-creating %s (shape %v) with shape %v was not refused", si, op.Path, cur.shape, op.Shape)
					return
				}
				r.Label("re-create")
			case op.Compress:
				r.Label("create-compressed(separate class)")
				if err == nil {
					// a stand-in with chunking support would accept it; then it is an ordinary dataset
					f.ds[op.Path] = &mds{typ: op.Typ, shape: op.Shape, vals: make([]float64, vm.Product(op.Shape))}
				}
			default:
				if err != nil {
					r.Failf("op %d: create %s %v failed: %v", si, op.Path, op.Shape, err)
					return
				}
				nd := &mds{typ: op.Typ, shape: op.Shape, vals: make([]float64, vm.Product(op.Shape))}
				// the initial content of a new dataset is not part of the property: the library's default fill (0) or
				// the fill value handed to Create (NaN for float64 here, 0 otherwise) are both accepted, uniformly
				if size, _, raw, ok := hdf5.FakeRaw(fn, op.Path); ok && !intTyp(op.Typ) {
					got := decodeRaw(op.Typ, size, raw)
					for i, v := range got {
						if !(v == 0 || (op.Typ == "float64" && math.IsNaN(v))) || (i > 0 && math.IsNaN(v) != math.IsNaN(got[0])) {
							r.Failf("op %d: new dataset %s element %d holds %v (neither the default fill nor the fill value)", si, op.Path, i, v)
							return
						}
						nd.vals[i] = v
					}
				}
				f.ds[op.Path] = nd
				f.addPath(op.Path)
			}
			f.exists = true
		case "write", "writeSlice":
			init := make([]float64, vm.Product(op.Src.Root))
			for i := range init {
				counter++
				init[i] = val(op.Typ, counter)
			}
			root := arr.NewRoot(op.Typ, op.SrcC, init, op.Src.Root, 0)
			sv, err := op.Src.Real(root.View)
			if err != nil {
				r.Failf("building the source view: %v", err)
				root.Free()
				return
			}
			sm := op.Src.Model(init)
			if !sm.Contig() {
				r.NonTrivial = true
				r.Label("non-contiguous-source-view")
			}
			if op.Kind == "write" {
				err = rf.write(fn, op.Path, sv.Raw())
				f.exists = true
				if cur != nil && fmt.Sprint(cur.shape) != fmt.Sprint(op.Shape) {
					if err == nil {
						r.Failf("op %d: writing a %v array to dataset %s of shape %v was not refused", si, op.Shape, op.Path, cur.shape)
						root.Free()
						return
					}
					r.Label("write-wrong-shape")
				} else {
					if err != nil {
						r.Failf("op %d: write %s failed: %v", si, op.Path, err)
						root.Free()
						return
					}
					f.ds[op.Path] = &mds{typ: op.Typ, shape: op.Shape, vals: sm.Values()}
					f.addPath(op.Path)
				}
			} else {
				err = rf.writeSlice(fn, op.Path, sv.Raw(), op.Loc)
				if err != nil {
					r.Failf("op %d: writeSlice %s at %v failed: %v", si, op.Path, op.Loc, err)
					root.Free()
					return
				}
				dst := vm.NewRoot(cur.vals, cur.shape)
				blk := dst.Slice(op.Loc, op.Shape, nil)
				vm.Each(op.Shape, func(idx []int) { blk.Set(idx, sm.Get(idx)) })
				cur.vals = dst.S.V
				r.Label("writeSlice")
			}
			if e := root.Check(); e != nil {
				r.Failf("op %d: %v", si, e)
			}
			// the source array must not change
			after := root.Storage()
			for i := range init {
				if after[i] != init[i] {
					r.Failf("op %d: %s modified its source array", si, op.Kind)
				}
			}
			root.Free()
			if r.Fail != "" {
				return
			}
		case "load":
			// the object handed to Load is never op.Sel itself (the expectation below is computed from op.Sel)
			sel := copySel(op.Sel)
			if op.Reuse > 0 && passed[op.Reuse-1] != nil {
				sel = passed[op.Reuse-1]
				r.Label("load:reused-selection-object")
				for d, s := range op.Sel {
					if s != nil && s[1] > cur.shape[d] {
						r.Label("load:reused-selection-object,clipped")
					}
				}
			}
			passed[si] = sel
			lv, err := rf.load(fn, op.Path, sel)
			if op.Empty {
				r.Label("empty-selection(separate class)")
				break
			}
			if err != nil {
				r.Failf("op %d: Load(%v) of %s (shape %v) failed: %v", si, op.Sel, op.Path, cur.shape, err)
				return
			}
			v := arr.Wrap(op.Typ, lv)
			// expected: the in-memory slice start : min(stop, n) : step of the model
			rank := len(cur.shape)
			loc, dims, step := make([]int, rank), make([]int, rank), make([]int, rank)
			stepped := false
			for d := 0; d < rank; d++ {
				loc[d], dims[d], step[d] = 0, cur.shape[d], 1
				if op.Sel != nil && op.Sel[d] != nil {
					s := op.Sel[d]
					stop := s[1]
					if stop > cur.shape[d] {
						stop = cur.shape[d]
						r.Label("load:stop-clipped")
						r.NonTrivial = true
					}
					loc[d], step[d] = s[0], s[2]
					dims[d] = (stop - s[0] + s[2] - 1) / s[2]
					if s[2] > 1 {
						stepped = true
					}
				}
			}
			if stepped {
				r.Label("load:step>1")
				r.NonTrivial = true
			}
			if fmt.Sprint(v.Shape()) != fmt.Sprint(dims) {
				r.Failf("op %d: Load(%v) of %s (shape %v) has shape %v, the corresponding in-memory slice has shape %v", si, op.Sel, op.Path, cur.shape, v.Shape(), dims)
				return
			}
			if intTyp(op.Typ) {
				k9 = true
				break
			}
			want := vm.NewRoot(cur.vals, cur.shape).Slice(loc, dims, step).Values()
			got := v.Unroll()
			for i := range want {
				if !eqv(got[i], want[i]) {
					r.Failf("op %d: Load(%v) of %s element %d = %v, the in-memory slice has %v", si, op.Sel, op.Path, i, got[i], want[i])
					return
				}
			}
		case "probe":
			ex := owio.H5RefFloat64{Filename: fn, Dataset: op.Path}.Exists()
			wantEx := f.exists && (cur != nil || f.order[strings.TrimRight(op.Path, "/")] != nil)
			if ex != wantEx && !hasCompress(c.Ops[:si+1]) {
				r.Failf("op %d: Exists(%s) = %v, model %v", si, op.Path, ex, wantEx)
				return
			}
			if cur != nil {
				shp, err := owio.H5RefFloat64{Filename: fn, Dataset: op.Path}.Shape()
				if err != nil || fmt.Sprint(shp) != fmt.Sprint(cur.shape) {
					r.Failf("op %d: Shape(%s) = %v (%v), model %v", si, op.Path, shp, err, cur.shape)
					return
				}
			}
			if f.exists && !hasCompress(c.Ops[:si+1]) {
				for g, kids := range f.order {
					var wd, wg []string
					for _, k := range kids {
						full := strings.TrimRight(g, "/") + "/" + k
						if f.ds[full] != nil {
							wd = append(wd, k)
						} else {
							wg = append(wg, k)
						}
					}
					gd, err1 := owio.H5RefFloat64{Filename: fn, Dataset: g}.GetDatasets()
					gg, err2 := owio.H5RefFloat64{Filename: fn, Dataset: g}.GetGroups()
					if err1 != nil || err2 != nil || fmt.Sprint(gd) != fmt.Sprint(append([]string{}, wd...)) || fmt.Sprint(gg) != fmt.Sprint(append([]string{}, wg...)) {
						r.Failf("op %d: listing of group %s: datasets %v groups %v (%v %v), model datasets %v groups %v", si, g, gd, gg, err1, err2, wd, wg)
						return
					}
				}
			}
		}
		if !verifyAll(si, what) {
			return
		}
	}
	if k9 {
		r.Hit = append(r.Hit, "h5ref-go-int-width")
	}
	return
}

// eqv: equal values, NaN equal to NaN (a dataset may start filled with NaN).
func eqv(a, b float64) bool { return a == b || (math.IsNaN(a) && math.IsNaN(b)) }

func hasCompress(ops []Op) bool {
	for _, o := range ops {
		if o.Kind == "create" && o.Compress {
			return true
		}
	}
	return false
}

func TestRoundTripHistories(t *testing.T) { pbt.Run(t, gen, check) }

// ---------------------------------------------------------------------------
// exhaustive enumeration of the selection helpers

type SelCase struct{ N, Start, Stop, Step int }

// stops far beyond any extent: the "up to the end" idiom (the arithmetic must not overflow)
var farStops = []int{1000, 1<<31 - 1, 1 << 31, 1 << 40, 1 << 62, math.MaxInt - 1, math.MaxInt}

func checkSel(c SelCase) (r pbt.Result) {
	want := 0
	for i := c.Start; i < c.Stop && i < c.N; i += c.Step {
		want++
	}
	r.NonTrivial = c.Step > 1 || c.Stop > c.N
	r.Key = fmt.Sprint(c)
	if got := owio.VerifSliceSize([]int{c.Start, c.Stop, c.Step}, c.N); got != want {
		r.Failf("selection [%d,%d,%d] on an extent of %d selects %d elements, sliceSize says %d", c.Start, c.Stop, c.Step, c.N, want, got)
		return
	}
	off, str, cnt, blk := owio.VerifMakeHyperslab([][]int{{c.Start, c.Stop, c.Step}, nil}, []int{c.N, 7})
	if off[0] != uint(c.Start) || str[0] != uint(c.Step) || cnt[0] != uint(want) || blk[0] != 1 || off[1] != 0 || str[1] != 1 || cnt[1] != 7 || blk[1] != 1 {
		r.Failf("makeHyperslab([%d,%d,%d], nil on [%d,7]) = offset %v stride %v count %v block %v", c.Start, c.Stop, c.Step, c.N, off, str, cnt, blk)
	}
	return
}

func TestSelectionHelpersExhaustive(t *testing.T) {
	if pbt.ReplayDirect(t, checkSel) {
		return
	}
	if sh, _ := pbt.Shard(); sh != 0 {
		t.Skip()
	}
	n := 0
	for N := 1; N <= 12; N++ {
		for start := 0; start < N; start++ {
			for stop := 0; stop <= N+3; stop++ {
				for step := 1; step <= 5; step++ {
					n++
					if !pbt.Direct(t, SelCase{N, start, stop, step}, checkSel) {
						return
					}
				}
			}
			for _, stop := range farStops {
				for step := 1; step <= 5; step++ {
					n++
					if !pbt.Direct(t, SelCase{N, start, stop, step}, checkSel) {
						return
					}
				}
			}
		}
	}
	pbt.SetExtra("selection_triples_enumerated", n)
}

// ---------------------------------------------------------------------------
// the stand-in's hyperslab selection against a nested-loop definition

func TestStandInSelfCheck(t *testing.T) {
	type SC struct {
		Dims, Off, Str, Cnt, Blk []int
	}
	pbt.Run(t, func(rt *rapid.T) SC {
		rank := rapid.IntRange(1, 3).Draw(rt, "rank")
		c := SC{}
		for d := 0; d < rank; d++ {
			n := rapid.IntRange(1, 8).Draw(rt, "n")
			blk := rapid.IntRange(1, n).Draw(rt, "blk")
			str := rapid.IntRange(blk, 9).Draw(rt, "str")
			maxCnt := (n-blk)/str + 1
			cnt := rapid.IntRange(1, maxCnt).Draw(rt, "cnt")
			off := rapid.IntRange(0, n-((cnt-1)*str+blk)).Draw(rt, "off")
			c.Dims, c.Off, c.Str, c.Cnt, c.Blk = append(c.Dims, n), append(c.Off, off), append(c.Str, str), append(c.Cnt, cnt), append(c.Blk, blk)
		}
		return c
	}, func(c SC) (r pbt.Result) {
		hdf5.Reset()
		defer hdf5.Reset()
		u := func(v []int) []uint {
			o := make([]uint, len(v))
			for i := range v {
				o[i] = uint(v[i])
			}
			return o
		}
		dir := os.Getenv("VERIF_WORK")
		if dir == "" {
			dir = os.TempDir()
		}
		fn := filepath.Join(dir, "selfcheck.h5")
		f, _ := hdf5.CreateFile(fn, hdf5.F_ACC_TRUNC)
		dt, _ := hdf5.NewDatatypeFromValue(float64(0))
		sp, _ := hdf5.CreateSimpleDataspace(u(c.Dims), nil)
		ds, err := f.CreateDataset("x", dt, sp)
		if err != nil {
			r.Failf("%v", err)
			return
		}
		all := make([]float64, vm.Product(c.Dims))
		for i := range all {
			all[i] = float64(i)
		}
		ds.Write(&all)
		fs := ds.Space()
		if err := fs.SelectHyperslab(u(c.Off), u(c.Str), u(c.Cnt), u(c.Blk)); err != nil {
			r.Failf("select: %v", err)
			return
		}
		// nested-loop definition of the selected linear offsets
		var want []float64
		shape := make([]int, len(c.Dims))
		for d := range shape {
			shape[d] = c.Cnt[d] * c.Blk[d]
		}
		vm.Each(shape, func(idx []int) {
			lin := 0
			for d := range idx {
				lin = lin*c.Dims[d] + c.Off[d] + (idx[d]/c.Blk[d])*c.Str[d] + idx[d]%c.Blk[d]
			}
			want = append(want, float64(lin))
		})
		ms, _ := hdf5.CreateSimpleDataspace(u(shape), nil)
		got := make([]float64, len(want))
		if err := ds.ReadSubset(&got, ms, fs); err != nil {
			r.Failf("read: %v", err)
			return
		}
		r.NonTrivial = len(c.Dims) >= 2
		if fmt.Sprint(got) != fmt.Sprint(want) {
			r.Failf("stand-in selection %+v reads %v, nested loops give %v", c, got, want)
		}
		return
	})
}

// ---------------------------------------------------------------------------
// concurrent callers: every worker owns one dataset (same file for all) and checks its own
// round trips while the others run; meant to be run under the race detector, where the stand-in's
// deliberately unsynchronised state turns a missing or shared-instead-of-exclusive lock into a report.

type WOp struct {
	Kind  string // write writeSlice load loadOther
	Loc   []int  `json:",omitempty"`
	Block []int  `json:",omitempty"`
	Other int    `json:",omitempty"`
}

type ConcCase struct {
	Shapes [][]int
	Types  []string
	Ops    [][]WOp
}

func genConc(t *rapid.T) ConcCase {
	w := rapid.IntRange(2, 6).Draw(t, "workers")
	c := ConcCase{}
	for i := 0; i < w; i++ {
		shape := vm.DrawDims(t, 3, 5, "shape")
		c.Shapes = append(c.Shapes, shape)
		c.Types = append(c.Types, rapid.SampledFrom([]string{"float64", "float32", "int32", "uint32", "int64", "uint64"}).Draw(t, "type"))
		var ops []WOp
		for k := rapid.IntRange(1, 12).Draw(t, "nops"); k > 0; k-- {
			op := WOp{Kind: rapid.SampledFrom([]string{"write", "writeSlice", "load", "load", "loadOther"}).Draw(t, "kind")}
			if op.Kind == "writeSlice" {
				for d := range shape {
					b := rapid.IntRange(1, shape[d]).Draw(t, "blk")
					op.Block = append(op.Block, b)
					op.Loc = append(op.Loc, rapid.IntRange(0, shape[d]-b).Draw(t, "loc"))
				}
			}
			op.Other = rapid.IntRange(0, w-1).Draw(t, "other")
			ops = append(ops, op)
		}
		c.Ops = append(c.Ops, ops)
	}
	return c
}

func checkConc(c ConcCase) (r pbt.Result) {
	hdf5.Reset()
	hdf5.Hook = nil
	defer hdf5.Reset()
	caseSeq++
	dir := os.Getenv("VERIF_WORK")
	if dir == "" {
		dir = os.TempDir()
	}
	fn := filepath.Join(dir, fmt.Sprintf("c08_conc_%d.h5", caseSeq))
	w := len(c.Shapes)
	errs := make([]string, w)
	done := make(chan int)
	path := func(i int) string { return fmt.Sprintf("/w%d/d", i) }
	// every dataset is created up front (sequentially), then the workers run concurrently
	for i := 0; i < w; i++ {
		if err := refs[c.Types[i]].create(fn, path(i), c.Shapes[i], false); err != nil {
			r.Failf("create: %v", err)
			return
		}
	}
	// whatever a new dataset starts with (default fill or the fill value) is each worker's starting model
	initial := make([][]float64, w)
	for i := 0; i < w; i++ {
		size, _, raw, _ := hdf5.FakeRaw(fn, path(i))
		initial[i] = decodeRaw(c.Types[i], size, raw)
	}
	for i := 0; i < w; i++ {
		go func(i int) {
			defer func() { done <- i }()
			typ, shape := c.Types[i], c.Shapes[i]
			model := append([]float64(nil), initial[i]...)
			cnt := 1000 * (i + 1)
			for si, op := range c.Ops[i] {
				switch op.Kind {
				case "write":
					vals := make([]float64, len(model))
					for k := range vals {
						cnt++
						vals[k] = val(typ, cnt)
					}
					root := arr.NewRoot(typ, false, vals, shape, 0)
					if err := refs[typ].write(fn, path(i), root.Raw()); err != nil {
						errs[i] = fmt.Sprintf("worker %d op %d: write failed: %v", i, si, err)
						return
					}
					copy(model, vals)
				case "writeSlice":
					vals := make([]float64, vm.Product(op.Block))
					for k := range vals {
						cnt++
						vals[k] = val(typ, cnt)
					}
					root := arr.NewRoot(typ, false, vals, op.Block, 0)
					if err := refs[typ].writeSlice(fn, path(i), root.Raw(), op.Loc); err != nil {
						errs[i] = fmt.Sprintf("worker %d op %d: writeSlice failed: %v", i, si, err)
						return
					}
					m := vm.NewRoot(model, shape)
					blk := m.Slice(op.Loc, op.Block, nil)
					k := 0
					vm.Each(op.Block, func(idx []int) { blk.Set(idx, vals[k]); k++ })
					copy(model, m.S.V)
				case "load":
					lv, err := refs[typ].load(fn, path(i), nil)
					if err != nil {
						errs[i] = fmt.Sprintf("worker %d op %d: load failed: %v", i, si, err)
						return
					}
					got := arr.Wrap(typ, lv).Unroll()
					for k := range model {
						if !eqv(got[k], model[k]) {
							errs[i] = fmt.Sprintf("worker %d op %d: element %d of its own dataset reads %v, it wrote %v (another caller interfered)", i, si, k, got[k], model[k])
							return
						}
					}
				case "loadOther":
					if _, err := refs[c.Types[op.Other]].load(fn, path(op.Other), nil); err != nil {
						errs[i] = fmt.Sprintf("worker %d op %d: load of worker %d's dataset failed: %v", i, si, op.Other, err)
						return
					}
				}
			}
		}(i)
	}
	for i := 0; i < w; i++ {
		<-done
	}
	r.NonTrivial = true
	for _, e := range errs {
		if e != "" {
			r.Failf("%s", e)
			return
		}
	}
	return
}

func TestConcurrentCallers(t *testing.T) { pbt.Run(t, genConc, checkConc) }

// ---------------------------------------------------------------------------
// LoadText: a 1-D dataset of fixed-width strings (written by h5py, here placed by the stand-in) comes back as exactly
// those strings - NUL padding dropped, a string that fills the width kept whole - and anything else is an error.

type TextCase struct {
	Strs  []string
	Width int // 0: longest + 1; otherwise the exact width (>= longest)
}

func genText(t *rapid.T) TextCase {
	c := TextCase{Strs: rapid.SliceOfN(rapid.StringMatching(`[A-Za-z0-9_ ]{0,12}`), 1, 8).Draw(t, "strs")}
	longest := 0
	for _, s := range c.Strs {
		if len(s) > longest {
			longest = len(s)
		}
	}
	switch rapid.IntRange(0, 2).Draw(t, "widthKind") {
	case 1:
		c.Width = longest // the longest string has no terminator
		if c.Width == 0 {
			c.Width = 1
		}
	case 2:
		c.Width = longest + rapid.IntRange(1, 5).Draw(t, "pad")
	}
	return c
}

func checkText(c TextCase) (r pbt.Result) {
	hdf5.Reset()
	hdf5.Hook = lockProbe
	lockViolations = nil
	defer func() { hdf5.Hook = nil; hdf5.Reset() }()
	caseSeq++
	dir := os.Getenv("VERIF_WORK")
	if dir == "" {
		dir = os.TempDir()
	}
	fn := filepath.Join(dir, fmt.Sprintf("c08_text_%d.h5", caseSeq))
	if err := hdf5.FakeCreateFile(fn); err != nil {
		r.Failf("INFRASTRUCTURE: %v", err)
		return
	}
	if err := hdf5.FakeStringDatasetWidth(fn, "/META/names", c.Strs, c.Width); err != nil {
		r.Failf("INFRASTRUCTURE: %v", err)
		return
	}
	if err := hdf5.FakePut(fn, "/numbers", "f64", []int{3}, []float64{1, 2, 3}); err != nil {
		r.Failf("INFRASTRUCTURE: %v", err)
		return
	}
	got, err := owio.H5RefFloat64{Filename: fn, Dataset: "/META/names"}.LoadText()
	if err != nil {
		r.Failf("LoadText of %d strings (width %d) failed: %v", len(c.Strs), c.Width, err)
		return
	}
	if fmt.Sprintf("%q", got) != fmt.Sprintf("%q", c.Strs) {
		r.Failf("LoadText returned %q, the dataset holds %q (width %d)", got, c.Strs, c.Width)
		return
	}
	if v, err := (owio.H5RefFloat64{Filename: fn, Dataset: "/numbers"}).LoadText(); err == nil {
		r.Failf("LoadText of a numeric dataset returned %q without an error", v)
		return
	}
	if v, err := (owio.H5RefFloat64{Filename: fn, Dataset: "/META/absent"}).LoadText(); err == nil {
		r.Failf("LoadText of a missing dataset returned %q without an error", v)
		return
	}
	if len(lockViolations) > 0 {
		r.Failf("LoadText: %s", lockViolations[0])
		return
	}
	r.Label("text")
	r.NonTrivial = len(c.Strs) > 1
	if c.Width > 0 {
		for _, s := range c.Strs {
			if len(s) == c.Width {
				r.Label("text:string-fills-the-width")
			}
		}
	}
	return
}

func TestLoadText(t *testing.T) { pbt.Run(t, genText, checkText) }

func FuzzRoundTripHistories(f *testing.F) { pbt.Fuzz(f, gen, check) }
