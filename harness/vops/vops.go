// Package vops: generated views and the bulk operations on them, checked against the extensional model (shared by C02 and C03).
package vops

import (
	"fmt"

	"pgregory.net/rapid"
	"verif/harness/arr"
	"verif/harness/pbt"
	vg "verif/harness/viewgen"
	vm "verif/harness/viewmodel"
)

type Case struct {
	Typ       string
	C         bool // back-end of V's root
	V         vg.ViewSpec
	NewShape  []int  // target of Reshape / MustReshape (right or wrong size)
	FastShape []int  // target of ReshapeFast (right size)
	PokeAt    int    // position (mod size) written through reshaped / unrolled results
	Op        string // binary operation: copyFrom applySlice scale addTo applyFunc none
	VIsDest   bool
	W         vg.ViewSpec // other operand, same shape as V (or as the sub-block for applySlice)
	WC        bool
	Sub       vm.SliceSpec // applySlice: block of the destination
	K         int          // scale factor / added constant
	ALoc      []int        `json:",omitempty"` // Apply: start index, dimension, step and number of values written along it
	ADim      int          `json:",omitempty"`
	AStep     int          `json:",omitempty"`
	AN        int          `json:",omitempty"`
	InPlace   bool         `json:",omitempty"` // scale / addTo / applyFunc with the destination itself as source (a := a*k)
	NoPoke    bool         `json:",omitempty"` // skip the write through Unroll() (lock-step comparisons: C views unroll to copies by design)
	Guard     int          `json:",omitempty"` // guard-page placement for C roots (see arr.NewRoot)
}

// genBig draws a whole-array case on a large array whose element count sits next to a power of two or a multiple
// of a common block size: where a size-thresholded or blocked fast path has its fencepost.
func genBig(t *rapid.T) Case {
	c := Case{Typ: rapid.SampledFrom(arr.Types[:6]).Draw(t, "type"), C: rapid.IntRange(0, 3).Draw(t, "cbacked") == 0}
	n := rapid.SampledFrom([]int{1024, 4096, 8192, 16384, 32768, 65536}).Draw(t, "block")*rapid.IntRange(1, 2).Draw(t, "mult") + rapid.IntRange(-3, 3).Draw(t, "delta")
	shape := []int{n}
	if rapid.Bool().Draw(t, "bigFactored") {
		shape = vg.Factor(t, n, "bigShape")
	}
	c.V = vg.ViewSpec{Root: shape, Class: "big"}
	c.W = vg.ViewSpec{Root: append([]int(nil), shape...), Class: "big"}
	c.NewShape = vg.Factor(t, n, "ns")
	c.FastShape = vg.Factor(t, n, "fs")
	c.PokeAt = rapid.IntRange(0, n-1).Draw(t, "poke")
	c.Op = rapid.SampledFrom([]string{"scale", "addTo", "applyFunc", "copyFrom"}).Draw(t, "op")
	c.VIsDest = rapid.Bool().Draw(t, "vIsDest")
	c.WC = rapid.IntRange(0, 3).Draw(t, "wC") == 0
	c.K = rapid.IntRange(0, 5).Draw(t, "k")
	return c
}

func Gen(t *rapid.T) Case {
	if b := rapid.IntRange(0, 39).Draw(t, "big"); b == 17 || b == 23 { // interior values: rapid favours the ends of a range
		return genBig(t)
	}
	c := Case{Typ: rapid.SampledFrom(arr.Types).Draw(t, "type"), C: rapid.Bool().Draw(t, "cbacked")}
	maxExt := 6
	if pbt.Thorough() {
		maxExt = 9
	}
	c.V = vg.Draw(t, nil, maxExt, "V")
	shape := c.V.Shape()
	size := vm.Product(shape)
	if rapid.IntRange(0, 3).Draw(t, "wrongSize") == 0 {
		c.NewShape = vm.DrawDims(t, 3, 6, "wrong")
	} else {
		c.NewShape = vg.Factor(t, size, "ns")
	}
	c.FastShape = vg.Factor(t, size, "fs")
	c.PokeAt = rapid.IntRange(0, size-1).Draw(t, "poke")
	ops := []string{"copyFrom", "applySlice", "apply", "apply", "none"}
	if c.Typ != "int" && c.Typ != "uint" {
		ops = append(ops, "scale", "addTo", "applyFunc", "scale", "addTo", "applyFunc")
	}
	c.Op = rapid.SampledFrom(ops).Draw(t, "op")
	c.VIsDest = rapid.Bool().Draw(t, "vIsDest")
	c.WC = rapid.Bool().Draw(t, "wC")
	c.K = rapid.IntRange(0, 5).Draw(t, "k")
	switch c.Op {
	case "applySlice":
		if c.VIsDest {
			c.Sub = vm.DrawSlice(t, shape, "sub")
			c.W = vg.Draw(t, c.Sub.Dims, maxExt, "W")
		} else {
			// V is the source: the destination W is a larger array, V lands in a block of it
			root, sp := vm.DrawSliceOfShape(t, shape, "dstblock")
			c.W = vg.ViewSpec{Root: root, Class: "whole"}
			c.Sub = sp
		}
	case "apply":
		c.VIsDest = true
		c.ADim = rapid.IntRange(0, len(shape)-1).Draw(t, "adim")
		c.AStep = rapid.IntRange(1, 3).Draw(t, "astep")
		c.ALoc = make([]int, len(shape))
		for d := range shape {
			c.ALoc[d] = rapid.IntRange(0, shape[d]-1).Draw(t, "aloc")
		}
		room := (shape[c.ADim]-1-c.ALoc[c.ADim])/c.AStep + 1
		c.AN = rapid.IntRange(1, room).Draw(t, "an")
		if rapid.Bool().Draw(t, "afull") {
			c.AN = room
		}
	case "none":
	default:
		wshape := shape
		if c.Op == "copyFrom" && c.VIsDest && rapid.IntRange(0, 2).Draw(t, "smallerSource") == 0 {
			// CopyFrom places the source in the leading corner of the destination: a source smaller than the
			// destination in any dimension (libopenwater copies library-initialised states back that way)
			wshape = make([]int, len(shape))
			for d := range shape {
				wshape[d] = rapid.IntRange(1, shape[d]).Draw(t, "srcExt")
			}
		}
		c.W = vg.Draw(t, wshape, maxExt, "W")
		if c.Op != "copyFrom" {
			c.InPlace = rapid.IntRange(0, 4).Draw(t, "inPlace") == 0
		}
	}
	return c
}

func val(typ string, k int) float64 {
	if arr.IsFloat(typ) {
		return float64(k) + 0.5
	}
	return float64(k)
}

func initVals(typ string, n, base int) []float64 {
	// distinct values in a scrambled order (7919 is prime and larger than any generated root): with values rising
	// along the storage the first element of every view would be its minimum and the last its maximum, and
	// Minimum / Maximum would never have to look past one element
	v := make([]float64, n)
	for i := range v {
		v[i] = val(typ, base+(i*7919+n/3)%n)
	}
	return v
}

func guarded(f func()) (err string) {
	defer func() {
		if r := recover(); r != nil {
			err = fmt.Sprint(r)
		}
	}()
	f()
	return ""
}

func eq(a, b []float64) int {
	if len(a) != len(b) {
		return -2
	}
	for i := range a {
		if a[i] != b[i] {
			return i
		}
	}
	return -1
}

func contigClass(m *vm.MV) string {
	if m.Size() == 1 {
		return "single-element"
	}
	if m.Contig() {
		return "contiguous"
	}
	return "non-contiguous"
}

func Check(c Case) pbt.Result { return Exec(c, nil) }

// Exec: see hist.Exec for the trace argument.
func Exec(c Case, trace *[]string) (r pbt.Result) {
	tr := func(format string, a ...interface{}) {
		if trace != nil {
			*trace = append(*trace, fmt.Sprintf(format, a...))
		}
	}
	initV := initVals(c.Typ, vm.Product(c.V.Root), 1)
	rootV := arr.NewRoot(c.Typ, c.C, initV, c.V.Root, c.Guard)
	defer rootV.Free()
	mRoot := vm.NewRoot(initV, c.V.Root)
	// share the model root's store so that writes through aliasing views are tracked
	mv := rebuild(c.V, mRoot)
	rv, err := c.V.Real(rootV.View)
	if err != nil {
		r.Failf("building V %+v: %v", c.V, err)
		return
	}
	r.Label("V:" + contigClass(mv))
	if c.V.Class == "big" {
		r.Label("big-array(>=1021 elements, size next to a block boundary)")
		r.NonTrivial = true
	}
	r.Label("type:" + c.Typ)
	if c.C {
		r.Label("V:c-backed")
	}
	if mv.Stepd {
		r.Label("V:stepped")
	}
	if c.V.Reshape != nil {
		r.Label("V:reshaped")
	}
	if !mv.Contig() || mv.Stepd || c.V.Reshape != nil {
		r.NonTrivial = true
	}
	size := mv.Size()

	storageOK := func(what string) bool {
		if i := eq(rootV.Storage(), mRoot.S.V); i != -1 {
			r.Failf("%s: root storage[%d] = %v, model %v", what, i, rootV.Storage()[i], mRoot.S.V[i])
			return false
		}
		if e := rootV.Check(); e != nil {
			r.Failf("%s: %v", what, e)
			return false
		}
		return true
	}

	// --- unary observations -------------------------------------------------
	var un []float64
	var cont bool
	var mx, mn float64
	if p := guarded(func() { un = rv.Unroll(); cont = rv.Contiguous(); mx = rv.Maximum(); mn = rv.Minimum() }); p != "" {
		r.Failf("unary observation panicked: %s", p)
		return
	}
	tr("shape=%v unroll=%v contiguous=%v max=%v min=%v", rv.Shape(), un, cont, mx, mn)
	want := mv.Values()
	if fmt.Sprint(rv.Shape()) != fmt.Sprint(mv.Shape) {
		r.Failf("shape %v, model %v", rv.Shape(), mv.Shape)
		return
	}
	if i := eq(un, want); i != -1 {
		r.Failf("Unroll differs from row-major element order at %d: got %v want %v", i, un, want)
		return
	}
	if cont != mv.Contig() {
		r.Failf("Contiguous() = %v but elements adjacent in storage = %v (shape %v offsets %v)", cont, mv.Contig(), mv.Shape, mv.Offs)
		return
	}
	wmx, wmn := want[0], want[0]
	for _, x := range want {
		if x > wmx {
			wmx = x
		}
		if x < wmn {
			wmn = x
		}
	}
	if mx != wmx || mn != wmn {
		r.Failf("Maximum/Minimum = %v/%v, scan gives %v/%v", mx, mn, wmx, wmn)
		return
	}

	// ReshapeFast: fails exactly on non-contiguous views
	var fr arr.View
	var ferr error
	if p := guarded(func() { fr, ferr = rv.ReshapeFast(c.FastShape) }); p != "" {
		r.Failf("ReshapeFast panicked: %s", p)
		return
	}
	tr("reshapeFast err=%v", ferr != nil)
	if (ferr != nil) != !mv.Contig() {
		r.Failf("ReshapeFast(%v) error=%v on a view with contiguous=%v", c.FastShape, ferr, mv.Contig())
		return
	}
	if ferr == nil {
		if i := eq(fr.Unroll(), want); i != -1 {
			r.Failf("ReshapeFast result differs at %d", i)
			return
		}
	}

	// Reshape / MustReshape: fail exactly when element counts differ
	sizeOK := vm.Product(c.NewShape) == size
	var rs arr.View
	var rerr error
	if p := guarded(func() { rs, rerr = rv.Reshape(c.NewShape) }); p != "" {
		r.Failf("Reshape(%v) panicked: %s", c.NewShape, p)
		return
	}
	tr("reshape err=%v", rerr != nil)
	if (rerr != nil) == sizeOK {
		r.Failf("Reshape(%v) of a %d-element view: error=%v", c.NewShape, size, rerr)
		return
	}
	mp := guarded(func() { rv.MustReshape(c.NewShape) })
	if (mp != "") == sizeOK {
		r.Failf("MustReshape(%v) of a %d-element view: panic=%q", c.NewShape, size, mp)
		return
	}
	if !sizeOK {
		r.Label("reshape:wrong-size")
	}
	if sizeOK {
		if fmt.Sprint(rs.Shape()) != fmt.Sprint(c.NewShape) {
			r.Failf("Reshape(%v) has shape %v", c.NewShape, rs.Shape())
			return
		}
		var ru []float64
		if p := guarded(func() { ru = rs.Unroll() }); p != "" {
			r.Failf("Unroll of reshaped view panicked: %s", p)
			return
		}
		if i := eq(ru, want); i != -1 {
			r.Failf("Reshape(%v) of %s view reads %v, row-major order is %v", c.NewShape, contigClass(mv), ru, want)
			return
		}
		// element-wise read through the reshaped view
		k := 0
		bad := false
		vm.Each(c.NewShape, func(idx []int) {
			if !bad && rs.Get(idx) != want[k] {
				r.Failf("reshaped view element %v = %v, want %v", idx, rs.Get(idx), want[k])
				bad = true
			}
			k++
		})
		if bad {
			return
		}
		// aliasing: a write through the reshaped view reaches the storage iff V was contiguous
		pidx := make([]int, len(c.NewShape))
		rem := c.PokeAt
		for d := len(c.NewShape) - 1; d >= 0; d-- {
			pidx[d] = rem % c.NewShape[d]
			rem /= c.NewShape[d]
		}
		x := val(c.Typ, 7777)
		if p := guarded(func() { rs.Set(pidx, x) }); p != "" {
			r.Failf("write through reshaped view panicked: %s", p)
			return
		}
		if mv.Contig() {
			mv.S.V[mv.Offs[c.PokeAt]] = x
		}
		if !storageOK(fmt.Sprintf("write through Reshape(%v) of a %s %s view", c.NewShape, contigClass(mv), backend(c.C))) {
			return
		}
		tr("after write through reshape: storage=%v view=%v", rootV.Storage(), rv.Unroll())
		if mv.Contig() && rv.Unroll()[c.PokeAt] != x {
			r.Failf("write through the reshape of a contiguous view is not visible through the view (reshape copied instead of aliasing)")
			return
		}
	}
	// Unroll aliasing (Go back-end: the property states it for Go-backed views)
	if !c.C && !c.NoPoke {
		y := val(c.Typ, 8888)
		if p := guarded(func() { rv.UnrollPoke(c.PokeAt, y) }); p != "" {
			r.Failf("UnrollPoke panicked: %s", p)
			return
		}
		if mv.Contig() {
			mv.S.V[mv.Offs[c.PokeAt]] = y
		}
		if !storageOK("write through Unroll() of a " + contigClass(mv) + " Go view") {
			return
		}
		if mv.Contig() && rv.Get(Unflatten(c.PokeAt, mv.Shape)) != y {
			r.Failf("Unroll() of a contiguous Go view copied instead of aliasing")
			return
		}
	}

	// --- binary operation ---------------------------------------------------
	if c.Op == "none" {
		return
	}
	if c.Op == "apply" {
		vals := make([]float64, c.AN)
		idx := append([]int(nil), c.ALoc...)
		for k := range vals {
			vals[k] = val(c.Typ, 9000+k)
			idx[c.ADim] = c.ALoc[c.ADim] + k*c.AStep
			mv.Set(idx, vals[k])
		}
		loc := append([]int(nil), c.ALoc...)
		if p := guarded(func() { rv.Apply(loc, c.ADim, c.AStep, vals) }); p != "" {
			r.Failf("Apply(%v, dim %d, step %d, %d values) on a %s %s view panicked: %s", c.ALoc, c.ADim, c.AStep, c.AN, contigClass(mv), backend(c.C), p)
			return
		}
		r.Label("apply:target-" + contigClass(mv))
		if c.AStep > 1 {
			r.Label("apply:step>1")
		}
		tr("after apply: storage=%v view=%v", rootV.Storage(), rv.Unroll())
		if !storageOK(fmt.Sprintf("Apply(%v, dim %d, step %d, %d values) on a %s %s view", c.ALoc, c.ADim, c.AStep, c.AN, contigClass(mv), backend(c.C))) {
			return
		}
		if i := eq(rv.Unroll(), mv.Values()); i != -1 {
			r.Failf("Apply on a %s view: element %d = %v, element-wise definition gives %v", contigClass(mv), i, rv.Unroll()[i], mv.Values()[i])
		}
		return
	}
	initW := initVals(c.Typ, vm.Product(c.W.Root), 5000)
	rootW := arr.NewRoot(c.Typ, c.WC, initW, c.W.Root, c.Guard)
	defer rootW.Free()
	mRootW := vm.NewRoot(initW, c.W.Root)
	mw := rebuild(c.W, mRootW)
	rw, err := c.W.Real(rootW.View)
	if err != nil {
		r.Failf("building W: %v", err)
		return
	}
	dstM, srcM, dstR, srcR := mv, mw, rv, rw
	if !c.VIsDest {
		dstM, srcM, dstR, srcR = mw, mv, rw, rv
	}
	dstC := c.C
	if !c.VIsDest {
		dstC = c.WC
	}
	if c.InPlace {
		// one view is both operands: element by element, row-major, each element is read and then written
		dstM, srcM, dstR, srcR, dstC = mv, mv, rv, rv, c.C
		r.Label(c.Op + ":in-place")
		r.NonTrivial = true
	}
	r.Label(fmt.Sprintf("%s:dst-%s/src-%s", c.Op, contigClass(dstM), contigClass(srcM)))
	if dstC {
		r.Label(c.Op + ":dst-c-backed")
	}
	if dstM.Contig() != srcM.Contig() {
		r.NonTrivial = true
		r.Label("mixed-contiguity")
	}
	srcBefore := srcM.Values()
	k := val(c.Typ, c.K)
	if arr.IsFloat(c.Typ) {
		k = float64(c.K) // keep products exactly representable in float32
	}
	var p string
	switch c.Op {
	case "copyFrom":
		if fmt.Sprint(srcM.Shape) != fmt.Sprint(dstM.Shape) {
			r.Label("copyFrom:source-smaller-than-destination")
			r.NonTrivial = true
		}
		vm.Each(srcM.Shape, func(idx []int) { dstM.Set(idx, srcM.Get(idx)) })
		p = guarded(func() { dstR.CopyFrom(srcR) })
	case "applySlice":
		blk := dstM.Slice(c.Sub.Loc, c.Sub.Dims, c.Sub.Step)
		vm.Each(c.Sub.Dims, func(idx []int) { blk.Set(idx, srcM.Get(idx)) })
		p = guarded(func() { dstR.ApplySlice(c.Sub.Loc, c.Sub.Step, srcR) })
	case "scale":
		vm.Each(dstM.Shape, func(idx []int) { dstM.Set(idx, srcM.Get(idx)*k) })
		p = guarded(func() { srcR.ScaleInto(dstR, k) })
	case "addTo":
		vm.Each(dstM.Shape, func(idx []int) { dstM.Set(idx, dstM.Get(idx)+srcM.Get(idx)) })
		p = guarded(func() { srcR.AddInto(dstR) })
	case "applyFunc":
		vm.Each(dstM.Shape, func(idx []int) { dstM.Set(idx, srcM.Get(idx)+k) })
		p = guarded(func() { srcR.ApplyFuncInto(dstR, k) })
	}
	if p != "" {
		r.Failf("%s (dst %s %s, src %s) panicked: %s", c.Op, contigClass(dstM), backend(dstC), contigClass(srcM), p)
		return
	}
	what := fmt.Sprintf("%s with %s %s destination and %s source", c.Op, contigClass(dstM), backend(dstC), contigClass(srcM))
	if !storageOK(what + " [V root]") {
		return
	}
	if i := eq(rootW.Storage(), mRootW.S.V); i != -1 {
		r.Failf("%s: W root storage[%d] = %v, element-wise definition gives %v", what, i, rootW.Storage()[i], mRootW.S.V[i])
		return
	}
	if e := rootW.Check(); e != nil {
		r.Failf("%s: %v", what, e)
		return
	}
	tr("after %s: Vroot=%v Wroot=%v dst=%v", c.Op, rootV.Storage(), rootW.Storage(), dstR.Unroll())
	// destination read through the view, source unchanged
	if i := eq(dstR.Unroll(), dstM.Values()); i != -1 {
		r.Failf("%s: destination element %d = %v, element-wise definition gives %v", what, i, dstR.Unroll()[i], dstM.Values()[i])
		return
	}
	if i := eq(srcR.Unroll(), srcBefore); i != -1 && !c.InPlace {
		r.Failf("%s: source element %d changed", what, i)
		return
	}
	return
}

func backend(c bool) string {
	if c {
		return "C-backed"
	}
	return "Go-backed"
}

func Unflatten(p int, shape []int) []int {
	idx := make([]int, len(shape))
	for d := len(shape) - 1; d >= 0; d-- {
		idx[d] = p % shape[d]
		p /= shape[d]
	}
	return idx
}

// rebuild builds the spec on a given model root (so the root's store is shared).
func rebuild(vs vg.ViewSpec, root *vm.MV) *vm.MV {
	m := root
	for _, sp := range vs.Chain {
		m = m.Slice(sp.Loc, sp.Dims, sp.Step)
	}
	if vs.Reshape != nil {
		m = m.Reshape(vs.Reshape)
	}
	return m
}
