package c05

import (
	"fmt"
	"runtime"
	"strings"
	"testing"
	"time"

	"pgregory.net/rapid"
	"verif/harness/pbt"
	"verif/harness/vrun"
)

func TestMain(m *testing.M) { pbt.Main(m, "C05") }

// Case: a vectorised-Run case with many cells, executed Repeat times under a drawn GOMAXPROCS.
// Meant to be built with -race: the race detector reports conflicting unsynchronised accesses
// between the cell goroutines; every repetition is also compared bit-for-bit with the sequential
// cell-by-cell reference (vrun.Check), so results cannot depend on the schedule.
type Case struct {
	V      vrun.Case
	Procs  int
	Repeat int
}

func gen(t *rapid.T) Case {
	maxN := 24
	if pbt.Thorough() {
		maxN = 48
	}
	return Case{V: vrun.GenFor("", 2, maxN)(t), Procs: rapid.SampledFrom([]int{1, 2, 3, 4, 8, 16}).Draw(t, "procs"), Repeat: 3}
}

func check(c Case) (r pbt.Result) {
	old := runtime.GOMAXPROCS(c.Procs)
	defer runtime.GOMAXPROCS(old)
	for i := 0; i < c.Repeat; i++ {
		ri := vrun.Check(c.V)
		if ri.Fail == "" {
			// Run has returned: every cell goroutine it started must be gone (one that is still alive is either still
			// writing - a race with the caller reading the results - or will never be joined)
			if left := cellGoroutinesLeft(); left != "" {
				ri.Fail = "a goroutine started by Run is still alive 3 s after Run returned:\n" + left
			}
		}
		if i == 0 {
			r = ri
			r.NonTrivial = c.V.N >= 2
			r.Label(fmt.Sprintf("GOMAXPROCS:%d", c.Procs))
		}
		if ri.Fail != "" {
			r.Fail = fmt.Sprintf("repetition %d with GOMAXPROCS=%d: %s", i, c.Procs, ri.Fail)
			return
		}
	}
	return
}

func TestCellGoroutinesRaceFreeAndScheduleIndependent(t *testing.T) { pbt.Run(t, gen, check) }

// The boundary cell counts once each under the race detector (a join that misses one goroutine beyond some count).
func TestCellCountBoundariesRaceFree(t *testing.T) {
	if pbt.ReplayDirect(t, check) {
		return
	}
	if sh, _ := pbt.Shard(); sh != 0 {
		t.Skip("enumeration runs in shard 0 only")
	}
	for _, n := range vrun.BoundaryCounts {
		c := Case{V: rapid.Custom(vrun.GenExact("Muskingum", n)).Example(n), Procs: 4, Repeat: 1}
		if !pbt.Direct(t, c, check) {
			return
		}
	}
}

// cellGoroutinesLeft waits (up to 3 s) for the goroutines created by a model's Run to finish exiting and returns the
// stack of one that does not.
func cellGoroutinesLeft() string {
	buf := make([]byte, 1<<20)
	for deadline := time.Now().Add(3 * time.Second); ; {
		n := runtime.Stack(buf, true)
		for _, g := range strings.Split(string(buf[:n]), "\n\n") {
			if strings.Contains(g, "created by github.com/flowmatters/openwater-core/models/") {
				if time.Now().After(deadline) {
					if len(g) > 900 {
						g = g[:900]
					}
					return g
				}
				goto again
			}
		}
		return ""
	again:
		time.Sleep(200 * time.Microsecond)
	}
}
