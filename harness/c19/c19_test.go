package c19

import (
	"encoding/json"
	"fmt"
	"testing"
	"time"

	"pgregory.net/rapid"
	"verif/harness/pbt"
	"verif/harness/simref"

	"github.com/flowmatters/openwater-core/data"
	"github.com/flowmatters/openwater-core/sim"
)

func TestMain(m *testing.M) { pbt.Main(m, "C19") }

// Case: a batch of start dates (consecutive days from Start), each run for Steps steps
// in one vectorised Run call (one cell per start date).
type Case struct {
	Y, M, D int // first start date
	Cells   int // consecutive start dates
	Steps   int
}

func epoch(y, m, d int) time.Time { return time.Date(y, time.Month(m), d, 0, 0, 0, 0, time.UTC) }

func interesting(t time.Time) bool {
	n := t.AddDate(0, 0, 1)
	return n.Month() != t.Month() || (t.Month() == 2 && t.Day() == 29) || t.Year()%100 == 0
}

func check(c Case) (r pbt.Result) {
	m := simref.New("DateGenerator")
	desc := m.Description()
	cells := make([]simref.Cell, c.Cells)
	starts := make([]time.Time, c.Cells)
	for i := range cells {
		s := epoch(c.Y, c.M, c.D).AddDate(0, 0, i)
		starts[i] = s
		cell := make(simref.Cell, len(desc.Parameters))
		cell[simref.ParamIndex(desc, "startDate")] = []float64{float64(s.Day())}
		cell[simref.ParamIndex(desc, "startMonth")] = []float64{float64(s.Month())}
		cell[simref.ParamIndex(desc, "startYear")] = []float64{float64(s.Year())}
		cells[i] = cell
	}
	simref.Prepare(m, simref.ParamMatrix(desc, cells))
	in := data.NewArray3DFloat64(1, len(desc.Inputs), c.Steps)
	st := m.InitialiseStates(c.Cells)
	out := sim.InitialiseOutputs(m, c.Steps, c.Cells)
	m.Run(in, st, out)
	oD, oM, oY, oDoy := simref.OutputIndex(desc, "date"), simref.OutputIndex(desc, "month"), simref.OutputIndex(desc, "year"), simref.OutputIndex(desc, "dayOfYear")
	for i := 0; i < c.Cells; i++ {
		for k := 0; k < c.Steps; k++ {
			w := starts[i].AddDate(0, 0, k)
			if interesting(w) {
				r.NonTrivial = true
			}
			g := [4]float64{out.Get3(i, oD, k), out.Get3(i, oM, k), out.Get3(i, oY, k), out.Get3(i, oDoy, k)}
			e := [4]float64{float64(w.Day()), float64(w.Month()), float64(w.Year()), float64(w.YearDay())}
			if g != e {
				r.Failf("start %s step %d: got day/month/year/doy %v, Gregorian calendar says %v", starts[i].Format("2006-01-02"), k, g, e)
				return
			}
		}
	}
	return
}

// The whole 400-year cycle: every start date, 3 steps each (so every day-to-day
// transition is exercised from every possible position in the month).
func TestExhaustiveCycle(t *testing.T) {
	if pbt.ReplayDirect(t, check) {
		return
	}
	if sh, _ := pbt.Shard(); sh != 0 {
		t.Skip("enumeration runs in shard 0 only")
	}
	start := epoch(1600, 1, 1)
	total := int((epoch(2000, 1, 1).Unix() - start.Unix()) / 86400)
	if total != 146097 {
		t.Fatalf("cycle length %d", total)
	}
	const batch = 512
	dates, nt := 0, 0
	for from := 0; from < total; from += batch {
		n := batch
		if from+n > total {
			n = total - from
		}
		s := start.AddDate(0, 0, from)
		c := Case{Y: s.Year(), M: int(s.Month()), D: s.Day(), Cells: n, Steps: 3}
		js, _ := json.Marshal(c)
		pbt.WriteAhead(t.Name(), js)
		r := check(c)
		if r.Fail != "" {
			// narrow to the single failing start date for the replay file
			for i := 0; i < n; i++ {
				d := s.AddDate(0, 0, i)
				c1 := Case{Y: d.Year(), M: int(d.Month()), D: d.Day(), Cells: 1, Steps: 3}
				if !pbt.Direct(t, c1, check) {
					return
				}
			}
			pbt.Direct(t, c, check)
			return
		}
		// account every start date as one evaluation
		for i := 0; i < n; i++ {
			d := s.AddDate(0, 0, i)
			ri := pbt.Result{Key: d.Format("2006-01-02"), NonTrivial: interesting(d) || interesting(d.AddDate(0, 0, 1)) || interesting(d.AddDate(0, 0, 2))}
			if ri.NonTrivial {
				nt++
			}
			if i == 0 {
				pbt.Record(t.Name(), js, &ri)
			} else {
				pbt.Record(t.Name(), []byte(fmt.Sprintf(`{"Y":%d,"M":%d,"D":%d,"Cells":1,"Steps":3}`, d.Year(), int(d.Month()), d.Day())), &ri)
			}
			dates++
		}
	}
	pbt.SetExtra("exhaustive", true)
	pbt.SetExtra("cycle_start_dates_enumerated", dates)
	pbt.SetExtra("cycle_start_dates_with_rollover_in_window", nt)
}

// Whole-cycle runs: 146 463 consecutive steps from 12 starts (one per month of 1600).
func TestWholeCycleRuns(t *testing.T) {
	if pbt.ReplayDirect(t, check) {
		return
	}
	if sh, _ := pbt.Shard(); sh != 0 {
		t.Skip()
	}
	for mth := 1; mth <= 12; mth++ {
		if !pbt.Direct(t, Case{Y: 1600, M: mth, D: 1 + (mth*7)%28, Cells: 1, Steps: 146097 + 366}, check) {
			return
		}
	}
}

func TestRandomWindows(t *testing.T) {
	maxLen := 400
	if pbt.Thorough() {
		maxLen = 3000
	}
	pbt.Run(t, func(rt *rapid.T) Case {
		y := rapid.IntRange(1, 9999).Draw(rt, "year")
		if rapid.IntRange(0, 3).Draw(rt, "century") == 0 {
			y = rapid.IntRange(0, 99).Draw(rt, "c")*100 + rapid.SampledFrom([]int{0, 0, 1, 4, 96, 99}).Draw(rt, "off")
			if y < 1 {
				y = 400
			}
		}
		m := rapid.IntRange(1, 12).Draw(rt, "month")
		if rapid.IntRange(0, 3).Draw(rt, "feb") == 0 {
			m = rapid.SampledFrom([]int{2, 3, 12, 1}).Draw(rt, "m2")
		}
		dim := epoch(y, m+1, 0).Day()
		d := rapid.IntRange(1, dim).Draw(rt, "day")
		if rapid.Bool().Draw(rt, "late") {
			d = rapid.IntRange(dim-3, dim).Draw(rt, "d2")
		}
		return Case{Y: y, M: m, D: d, Cells: rapid.IntRange(1, 4).Draw(rt, "cells"), Steps: rapid.IntRange(1, maxLen).Draw(rt, "steps")}
	}, func(c Case) pbt.Result {
		r := check(c)
		if c.Steps > 366 {
			r.Label("longer-than-a-year")
		}
		if c.Y%100 == 0 {
			r.Label("century-year-start")
		}
		return r
	})
}
