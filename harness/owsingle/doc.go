// Package main here is the repository's cmd/ow-single: its sources are mapped into this
// directory at build time with `go build -overlay` (see /verif/check), so the binary the
// C17 check drives is built from the working tree without touching it.
package main
