package c16

import (
	"fmt"
	"math"
	"testing"

	"pgregory.net/rapid"
	"verif/harness/pbt"
	"verif/harness/simref"
)

func TestMain(m *testing.M) { pbt.Main(m, "C16") }

var models = []string{"FixedPartition", "VariablePartition", "RatingCurvePartition", "PartitionDemand", "Input", "Sum", "Gate",
	"ApplyScalingFactor", "DeliveryRatio", "DepthToRate", "ComputeProportion", "EmcDwc", "FixedConcentration", "PassLoadIfFlow",
	"SednetDissolvedNutrientGeneration", "SednetParticulateNutrientGeneration", "BankErosion", "USLEFineSedimentGeneration",
	"DynamicSednetGully", "DynamicSednetGullyAlt"}

type Case struct {
	A     simref.CellCase
	Scale float64 // metamorphic factor applied to the flow inputs of the linear generators
}

func genFor(model string) func(t *rapid.T) Case {
	return func(t *rapid.T) Case {
		name := model
		if name == "" {
			name = rapid.SampledFrom(models).Draw(t, "model")
		}
		c := Case{A: simref.DrawCellCase(t, name, 1, 30), Scale: rapid.SampledFrom([]float64{2, 0.5, 3, 10}).Draw(t, "scale")}
		c.A.State = simref.StateSpec{}
		desc := simref.New(name).Description()
		// "all parameter values": the partition fractions and scale factors are not confined to [0,1]
		switch name {
		case "FixedPartition":
			c.A.Cell[0][0] = rapid.SampledFrom([]float64{0, 1, 0.25, 0.3333333333333333, 1.5, -0.5, c.A.Cell[0][0] / 10}).Draw(t, "fraction")
		case "ApplyScalingFactor", "DeliveryRatio":
			c.A.Cell[0][0] = rapid.SampledFrom([]float64{0, 1, 0.5, 2.5, -1, c.A.Cell[0][0]}).Draw(t, "scalev")
		case "VariablePartition":
			fr := c.A.Inputs[simref.InputIndex(desc, "fraction")]
			for k := range fr {
				if rapid.IntRange(0, 4).Draw(t, "fx") == 0 {
					fr[k] = rapid.SampledFrom([]float64{0, 1, 1.5, -0.25}).Draw(t, "fv")
				}
			}
		case "EmcDwc", "FixedConcentration", "SednetDissolvedNutrientGeneration":
			// flows at the tail of a recession: tiny but not zero (linear means linear down there too)
			if rapid.IntRange(0, 3).Draw(t, "tinyFlows") == 0 {
				for _, nm := range []string{"quickflow", "baseflow", "flow", "slowflow"} {
					for ii, in := range desc.Inputs {
						if in != nm {
							continue
						}
						for k := range c.A.Inputs[ii] {
							if rapid.IntRange(0, 2).Draw(t, "tinyStep") == 0 {
								c.A.Inputs[ii][k] = rapid.SampledFrom([]float64{1e-7, 3e-9, 1e-9, 1e-12, 1e-30}).Draw(t, "tiny")
							}
						}
					}
				}
			}
			if name == "SednetDissolvedNutrientGeneration" {
				break
			}
			// a concentration of exactly zero (below the documented lower bound, still a parameter value): the
			// kernels return early on it, and the load must then be zero
			for i := range c.A.Cell {
				if rapid.IntRange(0, 5).Draw(t, "zeroConc") == 0 {
					c.A.Cell[i][0] = 0
				}
			}
		case "ComputeProportion":
			dn := c.A.Inputs[simref.InputIndex(desc, "denominator")]
			for k := range dn {
				if rapid.IntRange(0, 3).Draw(t, "dz") == 0 {
					dn[k] = 0
				}
			}
		}
		// inputs "including zero and negative": flip the sign of some input values of the pure arithmetic models
		switch name {
		case "FixedPartition", "VariablePartition", "Input", "Sum", "Gate", "ApplyScalingFactor", "DeliveryRatio", "DepthToRate", "PartitionDemand", "ComputeProportion":
			for i := range c.A.Inputs {
				for k := range c.A.Inputs[i] {
					if rapid.IntRange(0, 9).Draw(t, "neg") == 0 {
						c.A.Inputs[i][k] = -c.A.Inputs[i][k]
					}
				}
			}
		}
		return c
	}
}

func interp(x float64, xs, ys []float64) float64 {
	n := len(xs)
	for j := 1; j < n; j++ {
		if x <= xs[j] {
			f := (x - xs[j-1]) / (xs[j] - xs[j-1])
			return ys[j-1]*(1-f) + ys[j]*f
		}
	}
	return ys[n-1]
}

const mgL = 1e-3 // mg/L -> kg/m^3

func check(c Case) (r pbt.Result) {
	name := c.A.Model
	desc := simref.New(name).Description()
	r.Label("model:" + name)
	P := func(n string) float64 { return c.A.Cell[simref.ParamIndex(desc, n)][0] }
	PT := func(n string) []float64 { return c.A.Cell[simref.ParamIndex(desc, n)] }
	I := func(n string) []float64 { return c.A.Inputs[simref.InputIndex(desc, n)] }
	out, _ := simref.Run1(name, c.A.Cell, c.A.Inputs, nil)
	O := func(n string) []float64 { return out[simref.OutputIndex(desc, n)] }
	T := c.A.T()
	eq := func(what string, t int, got, want, scale float64) bool {
		// 1e-290: products of tiny parameters land in the denormal range, where relative precision is gone
		if got == want || math.Abs(got-want) <= 1e-12*(math.Abs(scale)+math.Abs(want))+1e-290 {
			return true
		}
		r.Failf("%s step %d: %s = %.17g, expected %.17g (inputs %v, parameters %v)", name, t, what, got, want, stepIn(c.A.Inputs, t), c.A.Cell)
		return false
	}
	hasZero, hasNonZero := false, false
	driver := func(v float64) {
		if v == 0 {
			hasZero = true
		} else {
			hasNonZero = true
		}
	}
	for _, series := range out {
		for t, v := range series {
			if !simref.Finite(v) {
				r.Failf("%s step %d: non-finite output %v", name, t, v)
				return
			}
		}
	}
	for t := 0; t < T; t++ {
		switch name {
		case "FixedPartition", "VariablePartition", "RatingCurvePartition":
			in := I("input")[t]
			var f float64
			switch name {
			case "FixedPartition":
				f = P("fraction")
			case "VariablePartition":
				f = I("fraction")[t]
			default:
				f = interp(in, PT("inputAmount"), PT("proportion"))
			}
			driver(in)
			if !eq("output1", t, O("output1")[t], in*f, in) || !eq("output2", t, O("output2")[t], in*(1-f), in) ||
				!eq("output1+output2", t, O("output1")[t]+O("output2")[t], in, math.Abs(in)*(1+math.Abs(f))) {
				return
			}
		case "PartitionDemand":
			in, d := I("input")[t], I("demand")[t]
			driver(d)
			ext, o := O("extraction")[t], O("outflow")[t]
			if !eq("extraction", t, ext, math.Min(d, in), in) || !eq("outflow", t, o, math.Max(in-math.Min(d, in), 0), in) {
				return
			}
			if ext > d || ext > in || o < 0 {
				r.Failf("PartitionDemand step %d: extraction %v exceeds demand %v or availability %v, or outflow %v negative", t, ext, d, in, o)
				return
			}
			if !eq("outflow+extraction", t, o+ext, in, math.Abs(in)+math.Abs(d)) {
				return
			}
		case "Input":
			driver(I("input")[t])
			if O("output")[t] != I("input")[t] {
				r.Failf("Input step %d: output %v != input %v", t, O("output")[t], I("input")[t])
				return
			}
		case "Sum":
			driver(I("i1")[t])
			if !eq("out", t, O("out")[t], I("i1")[t]+I("i2")[t], 0) {
				return
			}
		case "Gate":
			w := 0.0
			if I("trigger")[t] > 0 {
				w = I("incoming")[t]
			}
			driver(I("trigger")[t])
			if O("outgoing")[t] != w {
				r.Failf("Gate step %d: outgoing %v, expected %v (trigger %v incoming %v)", t, O("outgoing")[t], w, I("trigger")[t], I("incoming")[t])
				return
			}
		case "ApplyScalingFactor", "DeliveryRatio":
			k := "scale"
			if name == "DeliveryRatio" {
				k = "fraction"
			}
			driver(I("input")[t])
			if !eq("output", t, O("output")[t], I("input")[t]*P(k), 0) {
				return
			}
		case "DepthToRate":
			driver(I("input")[t])
			if !eq("outflow", t, O("outflow")[t], I("input")[t]*1e-3*P("area")/P("DeltaT"), 0) {
				return
			}
		case "ComputeProportion":
			n, d := I("numerator")[t], I("denominator")[t]
			driver(d)
			w := P("resultOnZeroDenominator")
			if d != 0 {
				w = n / d
			}
			if !eq("proportion", t, O("proportion")[t], w, 0) {
				return
			}
		case "EmcDwc":
			q, s := I("quickflow")[t], I("baseflow")[t]
			driver(q)
			if !eq("quickLoad", t, O("quickLoad")[t], q*P("EMC")*mgL, 0) || !eq("slowLoad", t, O("slowLoad")[t], s*P("DWC")*mgL, 0) ||
				!eq("totalLoad", t, O("totalLoad")[t], O("quickLoad")[t]+O("slowLoad")[t], 0) {
				return
			}
		case "FixedConcentration":
			driver(I("flow")[t])
			if !eq("load", t, O("load")[t], I("flow")[t]*P("concentration")*mgL, 0) {
				return
			}
		case "PassLoadIfFlow":
			w := 0.0
			if I("flow")[t] > 1e-8 {
				w = I("inputLoad")[t] * P("scalingFactor")
			}
			driver(I("flow")[t])
			if !eq("outputLoad", t, O("outputLoad")[t], w, 0) {
				return
			}
		case "SednetDissolvedNutrientGeneration":
			q, s := I("quickflow")[t], I("slowflow")[t]
			driver(q)
			if !eq("quickflowConstituent", t, O("quickflowConstituent")[t], q*P("dissConst_EMC")*mgL, 0) ||
				!eq("slowflowConstituent", t, O("slowflowConstituent")[t], s*P("dissConst_DWC")*mgL, 0) ||
				!eq("totalLoad", t, O("totalLoad")[t], O("quickflowConstituent")[t]+O("slowflowConstituent")[t], 0) {
				return
			}
		case "SednetParticulateNutrientGeneration":
			hill := (I("fineSedModelFineSheetGeneratedKg")[t] + I("fineSedModelCoarseSheetGeneratedKg")[t]) * P("nutSurfSoilConc") * P("Nutrient_Enrichment_Ratio") * (P("hillDeliveryRatio") * 0.01)
			gul := (I("fineSedModelFineGullyGeneratedKg")[t] + I("fineSedModelCoarseGullyGeneratedKg")[t]) * P("nutSubSoilConc") * P("Nutrient_Enrichment_Ratio_Gully") * (P("gullyDeliveryRatio") * 0.01)
			driver(hill + gul)
			if !eq("hillslopeContribution", t, O("hillslopeContribution")[t], hill, 0) || !eq("gullyContribution", t, O("gullyContribution")[t], gul, 0) ||
				!eq("quickflowConstituent", t, O("quickflowConstituent")[t], hill+gul, 0) ||
				!eq("slowflowConstituent", t, O("slowflowConstituent")[t], I("slowflow")[t]*P("nutrientDWC")*mgL, 0) ||
				!eq("totalLoad", t, O("totalLoad")[t], O("quickflowConstituent")[t]+O("slowflowConstituent")[t], 0) {
				return
			}
		case "BankErosion":
			fine, coarse := O("bankErosionFine")[t], O("bankErosionCoarse")[t]
			flow, vol := I("downstreamFlowVolume")[t], I("totalVolume")[t]
			driver(flow)
			if fine < 0 || coarse < 0 {
				r.Failf("BankErosion step %d: negative load fine %v coarse %v", t, fine, coarse)
				return
			}
			if (flow <= 0 || vol <= 0) && (fine != 0 || coarse != 0) {
				r.Failf("BankErosion step %d: load %v/%v generated with zero flow or volume", t, fine, coarse)
				return
			}
			if !eq("fine share of the eroded material", t, fine, (fine+coarse)*P("soilPercentFine")/100, fine+coarse) {
				return
			}
			// closed form
			erod := (1 - math.Min(P("riparianVegPercent")/100, P("maxRiparianVegEffectiveness")/100)) * (P("soilErodibility") / 100)
			retreat := P("bankErosionCoeff") * 1000 * 9.81 * P("linkSlope") * P("bankFullFlow") * P("bankMgtFactor")
			meanAnnual := P("sedBulkDensity") * P("bankHeight") * P("linkLength") * retreat * erod
			ldf := 0.0
			if flow > 0 && vol > 0 && P("longTermAvDailyFlow") > 0 {
				ldf = math.Pow(flow*P("durationInSeconds"), P("dailyFlowPowerFactor")) / P("longTermAvDailyFlow")
			}
			total := meanAnnual * ldf / 365.25 * 1000 / P("durationInSeconds")
			if math.Abs(fine+coarse-total) > 1e-9*(1+math.Abs(total)) {
				r.Failf("BankErosion step %d: total load %v, closed form %v", t, fine+coarse, total)
				return
			}
		case "USLEFineSedimentGeneration":
			qf, rain := I("quickflow")[t], I("rainfall")[t]
			erosive := rain > P("RainThreshold") && qf > 0
			driver(qf)
			for _, o := range desc.Outputs {
				if O(o)[t] < 0 {
					r.Failf("USLE step %d: negative %s = %v", t, o, O(o)[t])
					return
				}
			}
			gf, gc := O("generatedLoadFine")[t], O("generatedLoadCoarse")[t]
			if !erosive && (gf != 0 || gc != 0 || O("quickLoadFine")[t] != 0 || O("quickLoadCoarse")[t] != 0) {
				r.Failf("USLE step %d: quick load generated without erosive rainfall / quickflow (rain %v threshold %v quickflow %v)", t, rain, P("RainThreshold"), qf)
				return
			}
			if !eq("quickLoadFine = generated x HSDR", t, O("quickLoadFine")[t], gf*P("usleHSDRFine")*0.01, gf) ||
				!eq("quickLoadCoarse = generated x HSDR", t, O("quickLoadCoarse")[t], gc*P("usleHSDRCoarse")*0.01, gc) ||
				!eq("slowLoadFine", t, O("slowLoadFine")[t], P("DWC")*I("baseflow")[t]*mgL, 0) ||
				!eq("totalFineLoad", t, O("totalFineLoad")[t], O("quickLoadFine")[t]+O("slowLoadFine")[t], 0) ||
				!eq("totalCoarseLoad", t, O("totalCoarseLoad")[t], O("quickLoadCoarse")[t]+O("slowLoadCoarse")[t], 0) {
				return
			}
			// fine : total split by the fine fraction KLSC_Fine / KLSC
			if kl := I("KLSC")[t]; kl > 0 && erosive {
				if !eq("fine share of generated load", t, gf*kl, (gf+gc)*I("KLSC_Fine")[t], (gf+gc)*kl) {
					return
				}
			}
		case "DynamicSednetGully", "DynamicSednetGullyAlt":
			yr, ro, ar := I("year")[t], I("quickflow")[t], I("AnnualRunoff")[t]
			active := yr >= P("YearDisturbance") && ro != 0 && ar != 0
			driver(ro)
			fl, cl, gf, gc := O("fineLoad")[t], O("coarseLoad")[t], O("generatedFine")[t], O("generatedCoarse")[t]
			if !active && (fl != 0 || cl != 0 || gf != 0 || gc != 0) {
				r.Failf("%s step %d: load %v/%v generated although the gully is inactive (year %v disturbance %v runoff %v annual %v)", name, t, fl, cl, yr, P("YearDisturbance"), ro, ar)
				return
			}
			if fl < 0 || cl < 0 || gf < 0 || gc < 0 {
				r.Failf("%s step %d: negative load", name, t)
				return
			}
			if !eq("fineLoad = generated x SDR", t, fl, gf*P("sdrFine")*0.01, gf) || !eq("coarseLoad = generated x SDR", t, cl, gc*P("sdrCoarse")*0.01, gc) {
				return
			}
			act := 1.0
			if yr > P("GullyEndYear") {
				act = P("averageGullyActivityFactor")
			}
			pf := P("GullyPercentFine") / 100
			// fine = X*pf*act, coarse = X*(1-pf): cross-multiplied to avoid dividing by zero
			if !eq("fine:coarse split by the fine fraction", t, gf*(1-pf), gc*pf*act, gf+gc) {
				return
			}
			if active {
				var X float64
				if name == "DynamicSednetGully" {
					rf := 1.0
					if P("longtermRunoffFactor") > 0 {
						pw := P("dailyRunoffPowerFactor")
						if pw <= 0 {
							pw = 1
						}
						rf = math.Pow(ro, pw) / P("longtermRunoffFactor")
					}
					X = rf / 365.25 * P("managementPracticeFactor") * P("GullyAnnualAverageSedimentSupply") * 1000
				} else {
					depth := ro / P("Area") * 1000 * 86400
					X = depth / ar * P("managementPracticeFactor") * I("annualLoad")[t]
				}
				X /= P("timeStepInSeconds")
				if math.Abs(gc-X*(1-pf)) > 1e-9*(1+math.Abs(X)) || math.Abs(gf-X*pf*act) > 1e-9*(1+math.Abs(X)) {
					r.Failf("%s step %d: generated fine/coarse %v/%v, closed form %v/%v", name, t, gf, gc, X*pf*act, X*(1-pf))
					return
				}
			}
		}
	}
	r.NonTrivial = hasZero && hasNonZero
	// metamorphic: the concentration-based generators are linear in flow
	lin := map[string][]string{"EmcDwc": {"quickflow", "baseflow"}, "FixedConcentration": {"flow"}, "SednetDissolvedNutrientGeneration": {"quickflow", "slowflow"}}
	if ins, ok := lin[name]; ok {
		in2 := make([][]float64, len(c.A.Inputs))
		for i := range in2 {
			in2[i] = append([]float64(nil), c.A.Inputs[i]...)
		}
		for _, nm := range ins {
			s := in2[simref.InputIndex(desc, nm)]
			for k := range s {
				s[k] *= c.Scale
			}
		}
		out2, _ := simref.Run1(name, c.A.Cell, in2, nil)
		for o := range out {
			for t := range out[o] {
				if !eq(fmt.Sprintf("%s under flow x %v", desc.Outputs[o], c.Scale), t, out2[o][t], out[o][t]*c.Scale, 0) {
					return
				}
			}
		}
		r.Label("linearity-checked")
	}
	return
}

func stepIn(in [][]float64, t int) []float64 {
	r := make([]float64, len(in))
	for i := range in {
		r[i] = in[i][t]
	}
	return r
}

func TestIdentities(t *testing.T) { pbt.Run(t, genFor(""), check) }

func TestIdentitiesPerModel(t *testing.T) {
	if pbt.ReplayOnly() {
		pbt.Run(t, genFor(""), check)
		return
	}
	if !pbt.Thorough() {
		t.Skip("thorough only")
	}
	sh, n := pbt.Shard()
	for i, name := range models {
		if i%n != sh {
			continue
		}
		name := name
		t.Run(name, func(t *testing.T) { pbt.Run(t, genFor(name), check) })
	}
}

func FuzzIdentities(f *testing.F) { pbt.Fuzz(f, genFor(""), check) }
