// Package hist: generated slice/read/write histories and their execution against the extensional model (shared by C01 and C03).
package hist

import (
	"fmt"

	"pgregory.net/rapid"
	"verif/harness/arr"
	"verif/harness/pbt"
	vm "verif/harness/viewmodel"
)

// Op is one step of a history. V indexes the list of live views (0 = the root).
type Op struct {
	Kind string // slice rslice get set apply apply1 applySlice copyFrom unroll
	V    int
	Loc  []int `json:",omitempty"`
	Dims []int `json:",omitempty"`
	Step []int `json:",omitempty"`
	Dim  int   `json:",omitempty"`
	St   int   `json:",omitempty"`
	N    int   `json:",omitempty"` // number of values for apply/apply1
	Via  int   `json:",omitempty"` // 0 generic Get/Set, 1 rank-specific Get1/2/3 / Set1/2/3, 2 Get1 along the series dimension of a higher-rank view
	// source operand of applySlice/copyFrom: a view of a second root
	SrcRoot []int `json:",omitempty"`
	SrcLoc  []int `json:",omitempty"`
	SrcStep []int `json:",omitempty"`
	SrcC    bool  `json:",omitempty"`
}

type Case struct {
	Typ   string
	C     bool
	Guard int
	Dims  []int
	Ops   []Op
}

const maxViews = 7

func Gen(t *rapid.T) Case {
	c := Case{Typ: rapid.SampledFrom(arr.Types).Draw(t, "type"), C: rapid.Bool().Draw(t, "cbacked")}
	if c.C && pbt.Thorough() {
		c.Guard = rapid.IntRange(0, 2).Draw(t, "guard")
	}
	maxExt := 6
	if pbt.Thorough() {
		maxExt = 9
	}
	c.Dims = vm.DrawDims(t, 4, maxExt, "root")
	if rapid.IntRange(0, 4).Draw(t, "longAxis") == 0 {
		// one long axis: runs of 8 and more values (a block-copy fast path needs some length to be taken)
		c.Dims[rapid.IntRange(0, len(c.Dims)-1).Draw(t, "longWhich")] = rapid.IntRange(8, 70).Draw(t, "longExt")
	}
	for vm.Product(c.Dims) > 600 && len(c.Dims) > 1 {
		c.Dims = c.Dims[1:]
	}
	// the model runs alongside generation so that every drawn operation is in bounds
	views := []*vm.MV{vm.NewRoot(make([]float64, vm.Product(c.Dims)), c.Dims)}
	n := rapid.IntRange(1, 40).Draw(t, "nops")
	for i := 0; i < n; i++ {
		v := rapid.IntRange(0, len(views)-1).Draw(t, "view")
		if rapid.IntRange(0, 2).Draw(t, "preferDeep") > 0 {
			v = len(views) - 1 - rapid.IntRange(0, min(2, len(views)-1)).Draw(t, "deep")
		}
		mv := views[v]
		rank := len(mv.Shape)
		kinds := []string{"get", "set", "set", "slice", "slice"}
		if !mv.RankReduced() {
			kinds = append(kinds, "apply", "apply", "applySlice", "applySlice", "copyFrom", "unroll")
			if rank == 1 {
				kinds = append(kinds, "apply1", "apply1")
			}
			if rank >= 2 {
				kinds = append(kinds, "rslice")
			}
		}
		k := rapid.SampledFrom(kinds).Draw(t, "kind")
		if (k == "slice" || k == "rslice") && (len(views) >= maxViews || mv.Depth >= 4) {
			k = "set"
		}
		op := Op{Kind: k, V: v}
		switch k {
		case "slice":
			if mv.RankReduced() {
				// nested slice of a rank-reduced view: no step argument (see DESIGN: such views only support step nil)
				op.Loc, op.Dims = make([]int, rank), make([]int, rank)
				for d := 0; d < rank; d++ {
					op.Dims[d] = rapid.IntRange(1, mv.Shape[d]).Draw(t, "dims")
					op.Loc[d] = rapid.IntRange(0, mv.Shape[d]-op.Dims[d]).Draw(t, "loc")
				}
			} else {
				sp := vm.DrawSlice(t, mv.Shape, "slice")
				op.Loc, op.Dims, op.Step = sp.Loc, sp.Dims, sp.Step
			}
			views = append(views, mv.Slice(op.Loc, op.Dims, op.Step))
		case "rslice":
			// rank-reducing slice as the generated model wrappers make: full-rank loc, fewer dims, no step
			keep := rapid.IntRange(1, rank-1).Draw(t, "keep")
			op.Loc, op.Dims = make([]int, rank), make([]int, keep)
			for d := 0; d < rank; d++ {
				if d < keep {
					op.Dims[d] = rapid.IntRange(1, mv.Shape[d]).Draw(t, "dims")
					op.Loc[d] = rapid.IntRange(0, mv.Shape[d]-op.Dims[d]).Draw(t, "loc")
				} else {
					op.Loc[d] = rapid.IntRange(0, mv.Shape[d]-1).Draw(t, "loc")
				}
			}
			views = append(views, mv.Slice(op.Loc, op.Dims, nil))
		case "get", "set":
			op.Loc = make([]int, rank)
			for d := range op.Loc {
				op.Loc[d] = rapid.IntRange(0, mv.Shape[d]-1).Draw(t, "idx")
			}
			if rank <= 3 && !mv.RankReduced() {
				op.Via = rapid.IntRange(0, 1).Draw(t, "via")
			}
			if op.Kind == "get" && rank > 1 && !mv.RankReduced() && rapid.IntRange(0, 5).Draw(t, "series") == 0 {
				// Get1 on a view of higher rank reads along its first dimension of extent > 1 (a series kept
				// in a [1, n, 1] block), all other indices zero
				op.Via = 2
				k := SeriesDim(mv.Shape)
				for d := range op.Loc {
					if d != k {
						op.Loc[d] = 0
					}
				}
			}
		case "apply":
			op.Dim = rapid.IntRange(0, rank-1).Draw(t, "dim")
			op.St = rapid.IntRange(1, 3).Draw(t, "step")
			op.Loc = make([]int, rank)
			for d := range op.Loc {
				op.Loc[d] = rapid.IntRange(0, mv.Shape[d]-1).Draw(t, "loc")
			}
			room := (mv.Shape[op.Dim]-1-op.Loc[op.Dim])/op.St + 1
			op.N = rapid.IntRange(1, room).Draw(t, "n")
			if rapid.Bool().Draw(t, "full") {
				op.N = room
			}
		case "apply1":
			op.St = rapid.IntRange(1, 3).Draw(t, "step")
			lo := rapid.IntRange(0, mv.Shape[0]-1).Draw(t, "loc")
			op.Loc = []int{lo}
			op.N = rapid.IntRange(1, (mv.Shape[0]-1-lo)/op.St+1).Draw(t, "n")
		case "applySlice":
			sp := vm.DrawSlice(t, mv.Shape, "dst")
			op.Loc, op.Step, op.Dims = sp.Loc, sp.Step, sp.Dims
			root, ssp := vm.DrawSliceOfShape(t, sp.Dims, "src")
			op.SrcRoot, op.SrcLoc, op.SrcStep = root, ssp.Loc, ssp.Step
			op.SrcC = c.C && rapid.Bool().Draw(t, "srcC")
		case "copyFrom":
			op.Dims = append([]int(nil), mv.Shape...)
			root, ssp := vm.DrawSliceOfShape(t, mv.Shape, "src")
			op.SrcRoot, op.SrcLoc, op.SrcStep = root, ssp.Loc, ssp.Step
			op.SrcC = c.C && rapid.Bool().Draw(t, "srcC")
		}
		c.Ops = append(c.Ops, op)
	}
	return c
}

func val(typ string, k int) float64 {
	if arr.IsFloat(typ) {
		return float64(k) + 0.25
	}
	return float64(k)
}

func guarded(f func()) (err string) {
	defer func() {
		if r := recover(); r != nil {
			err = fmt.Sprint(r)
		}
	}()
	f()
	return ""
}

func Check(c Case) pbt.Result { return Exec(c, nil) }

// Exec runs the history; when trace is non-nil every observation (read results, storage and view
// contents after each operation) is appended to it so that two back-ends can be compared in lock-step.
func Exec(c Case, trace *[]string) (r pbt.Result) {
	n := vm.Product(c.Dims)
	init := make([]float64, n)
	for i := range init {
		init[i] = val(c.Typ, i+1)
	}
	root := arr.NewRoot(c.Typ, c.C, init, c.Dims, c.Guard)
	defer root.Free()
	model := []*vm.MV{vm.NewRoot(init, c.Dims)}
	real := []arr.View{root.View}
	counter := 1000
	next := func() float64 { counter++; return val(c.Typ, counter) }
	if c.C {
		r.Label("c-backed")
	} else {
		r.Label("go-backed")
	}
	r.Label("type:" + c.Typ)

	compare := func(step int, op Op) bool {
		got := root.Storage()
		for i, w := range model[0].S.V {
			if got[i] != w {
				r.Failf("after op %d (%s on view %d): storage[%d] = %v, model says %v (write footprint differs)", step, op.Kind, op.V, i, got[i], w)
				return false
			}
		}
		if err := root.Check(); err != nil {
			r.Failf("after op %d (%s): %v", step, op.Kind, err)
			return false
		}
		if trace != nil {
			*trace = append(*trace, fmt.Sprintf("op%d %s storage=%v", step, op.Kind, got))
		}
		for vi, mv := range model {
			rv := real[vi]
			bad := ""
			if trace != nil {
				if e := guarded(func() {
					*trace = append(*trace, fmt.Sprintf("op%d view%d shape=%v contiguous=%v unroll=%v", step, vi, rv.Shape(), rv.Contiguous(), rv.Unroll()))
				}); e != "" {
					*trace = append(*trace, fmt.Sprintf("op%d view%d panic", step, vi))
				}
			}
			e := guarded(func() {
				sh := rv.Shape()
				if fmt.Sprint(sh) != fmt.Sprint(mv.Shape) {
					bad = fmt.Sprintf("shape %v, model %v", sh, mv.Shape)
					return
				}
				vm.Each(mv.Shape, func(idx []int) {
					if bad != "" {
						return
					}
					if g, w := rv.Get(idx), mv.Get(idx); g != w {
						bad = fmt.Sprintf("element %v reads %v, model %v", idx, g, w)
					}
				})
			})
			if e != "" {
				bad = "panic: " + e
			}
			if bad != "" {
				r.Failf("after op %d (%s on view %d): view %d (depth %d, stepped=%v): %s", step, op.Kind, op.V, vi, mv.Depth, mv.Stepd, bad)
				return false
			}
		}
		return true
	}

	for si, op := range c.Ops {
		mv, rv := model[op.V], real[op.V]
		deepStepped := mv.Depth >= 2 && mv.Stepd
		loc0 := append([]int(nil), op.Loc...)
		var perr string
		switch op.Kind {
		case "slice", "rslice":
			nm := mv.Slice(op.Loc, op.Dims, op.Step)
			model = append(model, nm)
			var nv arr.View
			perr = guarded(func() { nv = rv.Slice(op.Loc, op.Dims, op.Step) })
			if perr == "" {
				real = append(real, nv)
			}
			if op.Kind == "rslice" {
				r.Label("rank-reducing-slice")
			}
			if nm.Depth >= 2 && nm.Stepd {
				r.Label("depth>=2-stepped-view")
			}
		case "unroll":
			// a bulk read through a view OBJECT that the history keeps: whatever the object remembers between calls
			// (its layout, what it was asked before) must not outlive writes made through any other view, nor be
			// handed on to the views sliced from it afterwards
			var got []float64
			var contig bool
			perr = guarded(func() { contig = rv.Contiguous(); got = rv.Unroll() })
			if perr == "" {
				k := 0
				vm.Each(mv.Shape, func(idx []int) {
					if r.Fail == "" && (k >= len(got) || got[k] != mv.Get(idx)) {
						r.Failf("op %d: Unroll of view %d (depth %d, stepped=%v, contiguous=%v): position %d (element %v) does not read the model's %v (unrolled %v)", si, op.V, mv.Depth, mv.Stepd, contig, k, idx, mv.Get(idx), got)
					}
					k++
				})
				if r.Fail == "" && k != len(got) {
					r.Failf("op %d: Unroll of view %d has %d values, the view %d elements", si, op.V, len(got), k)
				}
			}
			r.Label("unroll-in-history")
			if si+1 < len(c.Ops) {
				r.Label("unroll-then-more-ops")
			}
		case "get":
			want := mv.Get(op.Loc)
			var got float64
			perr = guarded(func() {
				switch {
				case op.Via == 2:
					got = rv.Get1(op.Loc[SeriesDim(mv.Shape)])
				case op.Via == 1 && len(op.Loc) == 1:
					got = rv.Get1(op.Loc[0])
				case op.Via == 1 && len(op.Loc) == 2:
					got = rv.Get2(op.Loc[0], op.Loc[1])
				case op.Via == 1 && len(op.Loc) == 3:
					got = rv.Get3(op.Loc[0], op.Loc[1], op.Loc[2])
				default:
					got = rv.Get(op.Loc)
				}
			})
			if trace != nil {
				*trace = append(*trace, fmt.Sprintf("op%d get=%v", si, got))
			}
			if perr == "" && got != want {
				r.Failf("op %d: get %v (via %d) on view %d = %v, model %v", si, op.Loc, op.Via, op.V, got, want)
				return
			}
		case "set":
			v := next()
			mv.Set(op.Loc, v)
			perr = guarded(func() {
				switch {
				case op.Via == 1 && len(op.Loc) == 1:
					rv.Set1(op.Loc[0], v)
				case op.Via == 1 && len(op.Loc) == 2:
					rv.Set2(op.Loc[0], op.Loc[1], v)
				case op.Via == 1 && len(op.Loc) == 3:
					rv.Set3(op.Loc[0], op.Loc[1], op.Loc[2], v)
				default:
					rv.Set(op.Loc, v)
				}
			})
			if deepStepped {
				r.NonTrivial = true
				r.Label("write-through-depth>=2-stepped")
			}
		case "apply":
			vals := make([]float64, op.N)
			idx := append([]int(nil), op.Loc...)
			for k := range vals {
				vals[k] = next()
				idx[op.Dim] = op.Loc[op.Dim] + k*op.St
				mv.Set(idx, vals[k])
			}
			perr = guarded(func() { rv.Apply(op.Loc, op.Dim, op.St, vals) })
			if deepStepped || op.St > 1 || !mv.Contig() {
				r.NonTrivial = true
				r.Label("bulk-write-noncontiguous-target")
			}
		case "apply1":
			vals := make([]float64, op.N)
			for k := range vals {
				vals[k] = next()
				mv.Set([]int{op.Loc[0] + k*op.St}, vals[k])
			}
			perr = guarded(func() { rv.Apply1(op.Loc[0], op.St, vals) })
			if deepStepped || op.St > 1 {
				r.NonTrivial = true
			}
		case "applySlice", "copyFrom":
			sn := vm.Product(op.SrcRoot)
			sinit := make([]float64, sn)
			for i := range sinit {
				sinit[i] = next()
			}
			sroot := arr.NewRoot(c.Typ, op.SrcC, sinit, op.SrcRoot, 0)
			smodel := vm.NewRoot(sinit, op.SrcRoot).Slice(op.SrcLoc, op.Dims, op.SrcStep)
			var sview arr.View
			perr = guarded(func() { sview = sroot.Slice(op.SrcLoc, op.Dims, op.SrcStep) })
			if perr == "" {
				if op.Kind == "applySlice" {
					target := mv.Slice(op.Loc, op.Dims, op.Step)
					vm.Each(op.Dims, func(idx []int) { target.Set(idx, smodel.Get(idx)) })
					perr = guarded(func() { rv.ApplySlice(op.Loc, op.Step, sview) })
					if !target.Contig() || deepStepped {
						r.NonTrivial = true
						r.Label("bulk-write-noncontiguous-target")
					}
				} else {
					vm.Each(op.Dims, func(idx []int) { mv.Set(idx, smodel.Get(idx)) })
					perr = guarded(func() { rv.CopyFrom(sview) })
					if !mv.Contig() || deepStepped {
						r.NonTrivial = true
						r.Label("bulk-write-noncontiguous-target")
					}
				}
				if !smodel.Contig() {
					r.Label("noncontiguous-source")
				}
				// the source operand must not be modified
				got := sroot.Storage()
				for i := range sinit {
					if got[i] != sinit[i] {
						r.Failf("op %d (%s): source operand storage[%d] changed from %v to %v", si, op.Kind, i, sinit[i], got[i])
					}
				}
			}
			sroot.Free()
		}
		if perr != "" {
			r.Failf("op %d (%s on view %d, depth %d stepped=%v, loc %v dims %v step %v): panic: %s", si, op.Kind, op.V, mv.Depth, mv.Stepd, op.Loc, op.Dims, op.Step, perr)
			return
		}
		if fmt.Sprint(loc0) != fmt.Sprint(op.Loc) {
			r.Failf("op %d (%s): the caller's loc vector was changed from %v to %v", si, op.Kind, loc0, op.Loc)
			return
		}
		if r.Fail != "" || !compare(si, op) {
			return
		}
	}
	return
}

func min(a, b int) int {
	if a < b {
		return a
	}
	return b
}

// SeriesDim is the first dimension of extent > 1 (0 when there is none).
func SeriesDim(shape []int) int {
	for d, n := range shape {
		if n > 1 {
			return d
		}
	}
	return 0
}
