package c11

import (
	"fmt"
	"math"
	"testing"

	"pgregory.net/rapid"
	"verif/harness/pbt"
	"verif/harness/simref"
)

func TestMain(m *testing.M) { pbt.Main(m, "C11") }

const massBalanceLimit = 1e-3 // the model's own solver tolerance (m^3)
const convergenceLimit = 1e-8 // the model's own constant: the search stops when its trial points are this close (m^3/s)

// ---------------------------------------------------------------------------
// StorageRouting

type SRCase struct {
	Bias, K, M, Area, Dead, DT  float64
	Inflow, Lateral, Rain, Evap []float64
	S0                          float64
}

func genSR(t *rapid.T) SRCase {
	c := SRCase{}
	c.K = math.Exp(rapid.Float64Range(0, math.Log(1e6)).Draw(t, "logk"))
	c.M = rapid.Float64Range(0.3, 1).Draw(t, "m")
	switch rapid.IntRange(0, 7).Draw(t, "mone") {
	case 0, 7:
		c.M = 1
	case 3:
		// just below the linear case (the model treats |m-1| < 0.001 as 1 only when there is an inflow bias)
		c.M = 1 - math.Exp(rapid.Float64Range(math.Log(1e-6), math.Log(5e-3)).Draw(t, "mnear"))
	}
	c.DT = rapid.SampledFrom([]float64{86400, 86400, 3600, 21600}).Draw(t, "dt")
	if rapid.IntRange(0, 2).Draw(t, "dead") == 0 {
		c.Dead = rapid.Float64Range(0, 5e4).Draw(t, "deadv")
	}
	if rapid.IntRange(0, 3).Draw(t, "biased") == 0 {
		// 0 < bias with 2*k*bias <= dt (Muskingum stability limit); below 0.001 the model treats it as 0
		hi := math.Min(0.9, c.DT/(2*c.K))
		if hi > 0.002 {
			c.Bias = rapid.Float64Range(0.002, hi).Draw(t, "bias")
		}
	}
	if rapid.IntRange(0, 2).Draw(t, "evap") == 0 {
		c.Area = rapid.SampledFrom([]float64{10, 1e3, 1e5}).Draw(t, "area")
	}
	T := rapid.IntRange(1, 60).Draw(t, "T")
	c.Inflow = simref.Series(t, T, 20, "inflow")
	c.Lateral = simref.Series(t, T, 3, "lateral")
	if c.Area > 0 {
		c.Rain = simref.Series(t, T, 10, "rain")
		c.Evap = simref.Series(t, T, 5, "evap")
	} else {
		c.Rain, c.Evap = make([]float64, T), make([]float64, T)
	}
	if rapid.Bool().Draw(t, "s0") {
		c.S0 = rapid.Float64Range(0, 1e6).Draw(t, "s0v")
	}
	return c
}

// storage law with zero inflow bias
func (c SRCase) sOfQ(q float64) float64 {
	if q <= 0 {
		return c.Dead
	}
	return c.K*math.Pow(q, c.M) + c.Dead
}

func checkSR(c SRCase) (r pbt.Result) {
	cell := simref.Cell{{c.Bias}, {c.K}, {c.M}, {c.Area}, {c.Dead}, {c.DT}}
	out, fin := simref.Run1("StorageRouting", cell, [][]float64{c.Inflow, c.Lateral, c.Rain, c.Evap}, []float64{c.S0, 0, 0})
	Q, S := out[0], out[1]
	prev := c.S0
	paths := map[string]bool{}
	hitK6, hitK10, worst := false, false, 0.0
	if c.Bias > 0 {
		r.Label("bias>0")
	}
	if c.Dead > 0 {
		r.Label("dead-storage>0")
	}
	if c.Area > 0 {
		r.Label("evaporation")
	}
	for t := range Q {
		I, L := c.Inflow[t], c.Lateral[t]
		if !simref.Finite(Q[t]) || !simref.Finite(S[t]) {
			r.Failf("step %d: outflow %v storage %v not finite", t, Q[t], S[t])
			return
		}
		if Q[t] < 0 || S[t] < 0 {
			r.Failf("step %d: negative outflow %v or storage %v", t, Q[t], S[t])
			return
		}
		// net evaporation exactly as the model defines it (unit of area undocumented: no unit factor asserted)
		E := math.Min(math.Max(prev, 0)/c.DT+I, c.Area*(c.Evap[t]-c.Rain[t])/c.DT)
		want := prev + (I+L-Q[t]-E)*c.DT
		scale := math.Abs(prev) + (I+L+Q[t]+math.Abs(E))*c.DT
		// the near-zero-outflow branch accepts the index storage when it is within massBalanceLimit of the water held
		if math.Abs(S[t]-want) > 1e-9*(1+scale)+massBalanceLimit {
			r.Failf("step %d: water balance open: storage %v, but previous storage %v + (inflow %v + lateral %v - outflow %v - net evaporation %v) * %v = %v (error %g m^3; k=%g m=%g dead=%g bias=%g)",
				t, S[t], prev, I, L, Q[t], E, c.DT, want, S[t]-want, c.K, c.M, c.Dead, c.Bias)
			return
		}
		switch {
		case Q[t] == 0:
			paths["zero-outflow"] = true
		case S[t] <= L*c.DT*(1+1e-12) && S[t] >= L*c.DT*(1-1e-12):
			paths["drained"] = true
		default:
			paths["solved"] = true
		}
		// constitutive relation with zero bias, in the solver's own terms: the solver zeroes the residual
		// (q - Q)*dt where q is the index flow the reported storage belongs to, S = k*q^m + dead, down to
		// massBalanceLimit.  So: q_S = ((S-dead)/k)^(1/m) and |q_S - Q|*dt <= 2*massBalanceLimit.
		if c.Bias == 0 && Q[t] > 0 && S[t] >= c.Dead {
			qS := math.Pow((S[t]-c.Dead)/c.K, 1/c.M)
			res := math.Abs(qS-Q[t]) * c.DT
			// (when the reach drains the model takes Q = all available water and recomputes the storage from the
			// balance; the pair then sits within the tolerance of the curve vertically: |S - S(Q)| <= limit)
			res = math.Min(res, math.Abs(S[t]-c.sOfQ(Q[t])))
			if res > 2*massBalanceLimit+1e-9*(1+Q[t]*c.DT+S[t]) {
				// Known finding K6 (storage-routing-unconverged): the 20-iteration search can stop short of its tolerance
				// when the root lies in the lowest sliver of the bracket [0, S_prev/dt + I + L] (steep S(q) near 0)
				avail := math.Max(prev, 0)/c.DT + I - E
				bracket := avail + L
				qStar := 0.0
				if simref.StorageRoutingSolverCanMiss(c.K, c.M, c.Dead, c.DT, prev, I, L, E) {
					hitK6 = true
				} else if L > 0 && math.Abs(Q[t]-avail) <= 1e-9*(1+avail) {
					// Known finding K10 (storage-routing-drained-lateral): when the whole content of the reach leaves in
					// one step the model lets only the water present at the start of the step (plus upstream inflow)
					// out and keeps this step's lateral inflow as storage, whatever S(Q) says
					hitK10 = true
				} else {
					r.Failf("step %d: storage %v and outflow %v do not satisfy S = k*Q^m + dead within the solver tolerance: the flow with that storage is %v, residual %g m^3 > 2*%g (k=%g m=%g dead=%g, root/bracket %g)",
						t, S[t], Q[t], qS, res, massBalanceLimit, c.K, c.M, c.Dead, qStar/bracket)
					return
				}
			}
			if res > worst {
				worst = res
			}
		}
		prev = S[t]
	}
	if fin[0] != S[len(S)-1] {
		r.Failf("final storage state %v differs from the last reported storage %v", fin[0], S[len(S)-1])
		return
	}
	for p := range paths {
		r.Label("path:" + p)
	}
	if hitK6 {
		r.Hit = append(r.Hit, "storage-routing-unconverged")
	}
	if hitK10 {
		r.Hit = append(r.Hit, "storage-routing-drained-lateral")
	}
	r.NonTrivial = len(paths) >= 2
	return
}

func TestStorageRouting(t *testing.T) { pbt.Run(t, genSR, checkSR) }

// ---------------------------------------------------------------------------
// Muskingum

type MuskCase struct {
	K, X, DT        float64
	Inflow, Lateral []float64
	Steady          bool // constant inflow+lateral with matching initial state
	Runs            int  // the series is fed in this many consecutive Run calls (states carried)
}

func genMusk(t *rapid.T) MuskCase {
	c := MuskCase{DT: rapid.SampledFrom([]float64{86400, 3600, 43200}).Draw(t, "dt"), X: rapid.Float64Range(0, 0.5).Draw(t, "X")}
	lo, hi := c.DT/(2*(1-c.X)), 2e5
	if c.X > 0 && c.DT/(2*c.X) < hi {
		hi = c.DT / (2 * c.X)
	}
	if lo > hi {
		lo = hi
	}
	c.K = rapid.Float64Range(lo, hi).Draw(t, "K")
	if rapid.IntRange(0, 5).Draw(t, "edge") == 0 {
		c.K = rapid.SampledFrom([]float64{lo, hi}).Draw(t, "Kedge")
	}
	T := rapid.IntRange(1, 50).Draw(t, "T")
	c.Runs = rapid.IntRange(1, 3).Draw(t, "runs")
	c.Steady = rapid.IntRange(0, 3).Draw(t, "steady") == 0
	if c.Steady {
		i, l := rapid.Float64Range(0, 50).Draw(t, "I"), rapid.Float64Range(0, 10).Draw(t, "L")
		if rapid.Bool().Draw(t, "nolat") {
			l = 0
		}
		c.Inflow, c.Lateral = make([]float64, T), make([]float64, T)
		for k := range c.Inflow {
			c.Inflow[k], c.Lateral[k] = i, l
		}
	} else {
		c.Inflow = simref.Series(t, T, 20, "inflow")
		c.Lateral = simref.Series(t, T, 4, "lateral")
		if rapid.IntRange(0, 2).Draw(t, "nolat") == 0 {
			c.Lateral = make([]float64, T)
		}
	}
	return c
}

// runWindows feeds the series to the model in `runs` consecutive calls, carrying the states.
func runWindows(model string, cell simref.Cell, inputs [][]float64, st []float64, runs int) ([][]float64, []float64) {
	T := len(inputs[0])
	per := (T + runs - 1) / runs
	var out [][]float64
	for a := 0; a < T; a += per {
		b := a + per
		if b > T {
			b = T
		}
		in := make([][]float64, len(inputs))
		for i := range in {
			in[i] = inputs[i][a:b]
		}
		o, f := simref.Run1(model, cell, in, st)
		if out == nil {
			out = make([][]float64, len(o))
		}
		for k := range o {
			out[k] = append(out[k], o[k]...)
		}
		st = f
	}
	return out, st
}

func checkMusk(c MuskCase) (r pbt.Result) {
	cell := simref.Cell{{c.K}, {c.X}, {c.DT}}
	if c.Runs > 1 {
		r.Label("muskingum-in-several-calls")
	}
	T := len(c.Inflow)
	lat := simref.Sum(c.Lateral) > 0
	if lat {
		r.Label("lateral>0")
		r.NonTrivial = true
	}
	if c.Steady {
		r.Label("steady")
		tot := c.Inflow[0] + c.Lateral[0]
		// a reach in equilibrium: previous (total) inflow and previous outflow equal the steady flow
		out, _ := runWindows("Muskingum", cell, [][]float64{c.Inflow, c.Lateral}, []float64{0, tot, tot}, c.Runs)
		for t, q := range out[0] {
			if math.Abs(q-tot) > 1e-9*(1+tot) {
				r.Failf("steady inflow %v + lateral %v: outflow[%d] = %v, a steady flow must pass unchanged (K=%g X=%g dt=%g)", c.Inflow[0], c.Lateral[0], t, q, c.K, c.X, c.DT)
				return
			}
		}
		return
	}
	// finite event from rest, padded with a zero tail; the volume still in the reach after the tail is the
	// geometric remainder of the recession (weights from the textbook Muskingum coefficients, computed here)
	const tail = 60
	in := append(append([]float64(nil), c.Inflow...), make([]float64, tail)...)
	la := append(append([]float64(nil), c.Lateral...), make([]float64, tail)...)
	out, fin := runWindows("Muskingum", cell, [][]float64{in, la}, []float64{0, 0, 0}, c.Runs)
	den := 2*c.K*(1-c.X) + c.DT
	a2, a3 := (c.DT+2*c.K*c.X)/den, (2*c.K*(1-c.X)-c.DT)/den
	sumQ := simref.Sum(out[0])
	lastTotIn := in[len(in)-1] + la[len(la)-1]
	remainder := (a2*lastTotIn + a3*out[0][len(in)-1]) / (1 - a3)
	sumIn := simref.Sum(c.Inflow) + simref.Sum(c.Lateral)
	if math.Abs(sumQ+remainder-sumIn) > 1e-9*(1+sumIn) {
		r.Failf("event of %d steps + zero tail: outflow volume %v (+ %v still receding) != inflow %v + lateral %v (K=%g X=%g dt=%g)",
			T, sumQ, remainder, simref.Sum(c.Inflow), simref.Sum(c.Lateral), c.K, c.X, c.DT)
		return
	}
	_ = fin
	return
}

func TestMuskingum(t *testing.T) { pbt.Run(t, genMusk, checkMusk) }

// ---------------------------------------------------------------------------
// Lag

type LagCase struct {
	Lag    int
	Inflow []float64
	Buffer []float64 // carried-over buffer (length Lag)
	Runs   int       // the series is fed in this many consecutive calls (>= 1)
	Pad    int       // extra zero columns in the state row (a batch sizes rows for its widest cell)
}

func genLag(t *rapid.T) LagCase {
	c := LagCase{Lag: rapid.IntRange(0, 12).Draw(t, "lag")}
	T := rapid.IntRange(1, 30).Draw(t, "T")
	if rapid.Bool().Draw(t, "short") && c.Lag > 1 {
		T = rapid.IntRange(1, c.Lag).Draw(t, "Tshort")
	}
	c.Inflow = make([]float64, T)
	for i := range c.Inflow {
		c.Inflow[i] = float64(100 + i)
	}
	c.Buffer = make([]float64, c.Lag)
	if rapid.Bool().Draw(t, "carried") {
		for i := range c.Buffer {
			c.Buffer[i] = float64(-1 - i)
		}
	}
	c.Runs = rapid.IntRange(1, 3).Draw(t, "runs")
	c.Pad = rapid.SampledFrom([]int{0, 0, 1, 2, 5}).Draw(t, "pad")
	return c
}

func checkLag(c LagCase) (r pbt.Result) {
	T := len(c.Inflow)
	if c.Lag > T {
		r.Label("lag>length")
		r.NonTrivial = true
	}
	if c.Lag == 0 {
		r.Label("lag=0")
	}
	// definition: the stream (buffer ++ inflow) delayed by Lag
	stream := append(append([]float64(nil), c.Buffer...), c.Inflow...)
	st := append(append([]float64(nil), c.Buffer...), make([]float64, c.Pad)...)
	if c.Pad > 0 {
		r.Label("state-row-wider-than-lag")
	}
	var got []float64
	per := (T + c.Runs - 1) / c.Runs
	for a := 0; a < T; a += per {
		b := a + per
		if b > T {
			b = T
		}
		if c.Lag > b-a {
			r.Label("segment-shorter-than-lag")
			r.NonTrivial = true
		}
		out, f := simref.Run1("Lag", simref.Cell{{float64(c.Lag)}}, [][]float64{c.Inflow[a:b]}, st)
		got = append(got, out[0]...)
		st = f
	}
	for t := 0; t < T; t++ {
		if got[t] != stream[t] {
			r.Failf("lag %d, %d steps in %d call(s): outflow[%d] = %v, the inflow delayed by the lag (first steps from the carried buffer) is %v; outflow %v", c.Lag, T, c.Runs, t, got[t], stream[t], got)
			return
		}
	}
	want := stream[T:]
	if d := simref.DiffBits("final buffer", st[:c.Lag], want); d != "" {
		r.Failf("lag %d, %d steps in %d call(s), state row %d wide: final buffer %v, want %v", c.Lag, T, c.Runs, c.Lag+c.Pad, st, want)
		return
	}
	for j := c.Lag; j < len(st); j++ {
		if st[j] != 0 {
			r.Failf("lag %d: state column %d beyond the buffer was changed to %v", c.Lag, j, st[j])
			return
		}
	}
	_ = fmt.Sprint
	return
}

func TestLag(t *testing.T) { pbt.Run(t, genLag, checkLag) }

func FuzzStorageRouting(f *testing.F) { pbt.Fuzz(f, genSR, checkSR) }
