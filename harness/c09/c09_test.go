package c09

import (
	"bytes"
	"fmt"
	"os"
	"os/exec"
	"path/filepath"
	"regexp"
	"sort"
	"strconv"
	"strings"
	"sync"
	"testing"

	_ "github.com/flowmatters/openwater-core/models"
	"github.com/flowmatters/openwater-core/sim"
	yaml "gopkg.in/yaml.v2"
	"pgregory.net/rapid"
	"verif/harness/pbt"
)

func TestMain(m *testing.M) { pbt.Main(m, "C09") }

func repo() string {
	if r := os.Getenv("VERIF_REPO"); r != "" {
		return r
	}
	return "/repo"
}

var (
	setupOnce sync.Once
	setupErr  error
	scratch   string // pristine copy of the repository (tools are built here)
	tools     string
)

func run(dir string, name string, args ...string) (string, error) {
	cmd := exec.Command(name, args...)
	cmd.Dir = dir
	cmd.Env = append(os.Environ(), "GOFLAGS=-mod=mod", "GOPROXY=off", "GOSUMDB=off", "GOTOOLCHAIN=local")
	out, err := cmd.CombinedOutput()
	return string(out), err
}

func copyTree(dst string) error {
	if err := os.MkdirAll(dst, 0o755); err != nil {
		return err
	}
	out, err := run("/", "rsync", "-a", "--exclude", ".git", repo()+"/", dst+"/")
	if err != nil {
		return fmt.Errorf("rsync: %v %s", err, out)
	}
	return nil
}

// setup: pristine scratch copy + the two generators built from it (genny from the module cache).
func setup(t *testing.T) {
	setupOnce.Do(func() {
		work := os.Getenv("VERIF_WORK")
		if work == "" {
			work, setupErr = os.MkdirTemp("", "c09-")
			if setupErr != nil {
				return
			}
		}
		scratch = filepath.Join(work, "pristine")
		tools = filepath.Join(work, "tools")
		os.MkdirAll(tools, 0o755)
		if setupErr = copyTree(scratch); setupErr != nil {
			return
		}
		if out, err := run(scratch, "go", "build", "-o", filepath.Join(tools, "genny"), "github.com/joelrahman/genny"); err != nil {
			setupErr = fmt.Errorf("building genny: %v\n%s", err, out)
			return
		}
		if out, err := run(scratch, "go", "build", "-o", filepath.Join(tools, "ow-specgen"), "./pre/ow-specgen"); err != nil {
			setupErr = fmt.Errorf("building ow-specgen: %v\n%s", err, out)
			return
		}
	})
	if setupErr != nil {
		t.Fatalf("INFRASTRUCTURE: %v", setupErr)
	}
}

// --- independent scan of the tree ---------------------------------------------------------

type directive struct {
	Dir, File, Args string // genny arguments with $GOFILE substituted
}

func gennyDirectives(root string) []directive {
	var ds []directive
	filepath.Walk(root, func(p string, info os.FileInfo, err error) error {
		if err != nil || info.IsDir() || !strings.HasSuffix(p, ".go") || strings.HasPrefix(filepath.Base(p), "gen-") {
			return nil
		}
		b, _ := os.ReadFile(p)
		for _, line := range strings.Split(string(b), "\n") {
			if strings.HasPrefix(line, "//go:generate genny ") {
				args := strings.TrimPrefix(line, "//go:generate genny ")
				args = strings.ReplaceAll(args, "$GOFILE", filepath.Base(p))
				rel, _ := filepath.Rel(root, filepath.Dir(p))
				ds = append(ds, directive{Dir: rel, File: filepath.Base(p), Args: args})
			}
		}
		return nil
	})
	sort.Slice(ds, func(i, j int) bool { return ds[i].Dir+ds[i].File < ds[j].Dir+ds[j].File })
	return ds
}

type specBlock struct {
	File  string // relative path of the source file holding the block
	Name  string
	Block yaml.MapSlice
}

var specRe = regexp.MustCompile(`(?s)/\*\s*OW-SPEC(.*?)\*/`)

// specBlocks reads every OW-SPEC block with a YAML parser (ordered maps), not the generator's code path.
func specBlocks(root string) ([]specBlock, error) {
	var res []specBlock
	files, _ := filepath.Glob(filepath.Join(root, "models", "*", "*.go"))
	sort.Strings(files)
	for _, f := range files {
		if strings.HasPrefix(filepath.Base(f), "generated_") {
			continue
		}
		b, _ := os.ReadFile(f)
		for _, m := range specRe.FindAllSubmatch(b, -1) {
			text := strings.ReplaceAll(string(m[1]), "\t", "  ")
			var doc yaml.MapSlice
			if err := yaml.Unmarshal([]byte(text), &doc); err != nil {
				return nil, fmt.Errorf("%s: %v", f, err)
			}
			rel, _ := filepath.Rel(root, f)
			for _, item := range doc {
				blk, _ := item.Value.(yaml.MapSlice)
				res = append(res, specBlock{File: rel, Name: fmt.Sprint(item.Key), Block: blk})
			}
		}
	}
	return res, nil
}

func generatedFiles(root string) []string {
	var fs []string
	filepath.Walk(root, func(p string, info os.FileInfo, err error) error {
		if err != nil || info.IsDir() {
			return nil
		}
		b := filepath.Base(p)
		if strings.HasSuffix(b, ".go") && (strings.HasPrefix(b, "gen-") || strings.HasPrefix(b, "generated_")) {
			rel, _ := filepath.Rel(root, p)
			fs = append(fs, rel)
		}
		return nil
	})
	sort.Strings(fs)
	return fs
}

func gennyRun(root string, d directive) (string, error) {
	// the directive's quoted type list is one argument
	parts := []string{}
	rest := d.Args
	for len(rest) > 0 {
		rest = strings.TrimLeft(rest, " ")
		if rest == "" {
			break
		}
		if rest[0] == '"' {
			end := strings.Index(rest[1:], `"`)
			parts = append(parts, rest[1:1+end])
			rest = rest[end+2:]
		} else {
			end := strings.IndexByte(rest, ' ')
			if end < 0 {
				end = len(rest)
			}
			parts = append(parts, rest[:end])
			rest = rest[end:]
		}
	}
	return run(filepath.Join(root, d.Dir), filepath.Join(tools, "genny"), parts...)
}

// --- 1. every generated file is byte-for-byte what the generators produce ------------------

type FileCase struct {
	File string
}

func TestRegenerateEverything(t *testing.T) {
	// in replay mode the whole (cheap) enumeration is simply run again
	if sh, _ := pbt.Shard(); sh != 0 {
		t.Skip()
	}
	setup(t)
	regen := filepath.Join(filepath.Dir(scratch), "regen")
	if err := copyTree(regen); err != nil {
		t.Fatalf("INFRASTRUCTURE: %v", err)
	}
	checkedIn := generatedFiles(repo())
	for _, f := range generatedFiles(regen) {
		os.Remove(filepath.Join(regen, f))
	}
	dirs := gennyDirectives(regen)
	for _, d := range dirs {
		if out, err := gennyRun(regen, d); err != nil {
			t.Errorf("genny %s/%s failed: %v\n%s", d.Dir, d.File, err, out)
		}
	}
	specs, err := specBlocks(regen)
	if err != nil {
		t.Fatalf("reading spec blocks: %v", err)
	}
	specFiles := map[string]bool{}
	for _, s := range specs {
		specFiles[s.File] = true
	}
	var sf []string
	for f := range specFiles {
		sf = append(sf, f)
	}
	sort.Strings(sf)
	for _, f := range sf {
		if out, err := run(regen, filepath.Join(tools, "ow-specgen"), "./"+f); err != nil {
			t.Errorf("ow-specgen %s failed: %v\n%s", f, err, out)
		}
	}
	// expected set from the independent scan
	expected := map[string]bool{}
	for _, d := range dirs {
		expected[filepath.Join(d.Dir, "gen-"+d.File)] = true
	}
	for _, s := range specs {
		expected[filepath.Join(filepath.Dir(s.File), "generated_"+s.Name+".go")] = true
	}
	produced := generatedFiles(regen)
	all := map[string]bool{}
	for _, f := range checkedIn {
		all[f] = true
	}
	for _, f := range produced {
		all[f] = true
	}
	for f := range expected {
		all[f] = true
	}
	var names []string
	for f := range all {
		names = append(names, f)
	}
	sort.Strings(names)
	programs := 0
	for _, f := range names {
		f := f
		programs++
		pbt.Direct(t, FileCase{File: f}, func(c FileCase) (r pbt.Result) {
			r.NonTrivial = true
			r.Key = c.File
			if strings.HasPrefix(filepath.Base(c.File), "gen-") {
				r.Label("genny-output")
			} else {
				r.Label("model-wrapper")
			}
			if !expected[c.File] {
				r.Failf("%s is a generated file but no //go:generate directive or OW-SPEC block declares it", c.File)
				return
			}
			a, errA := os.ReadFile(filepath.Join(repo(), c.File))
			b, errB := os.ReadFile(filepath.Join(regen, c.File))
			if errA != nil {
				r.Failf("%s is declared by a directive / spec block but is not checked in", c.File)
				return
			}
			if errB != nil {
				r.Failf("%s is checked in but the generators do not produce it", c.File)
				return
			}
			if !bytes.Equal(a, b) {
				r.Failf("%s differs from what the generator produces on the current template/spec: %s", c.File, firstDiff(a, b))
			}
			return
		})
	}
	pbt.SetExtra("programs", programs)
	pbt.SetExtra("disagreements_checked", 0)
	pbt.SetExtra("exhaustive", true)
	pbt.SetExtra("genny_directives", len(dirs))
	pbt.SetExtra("spec_blocks", len(specs))
}

func firstDiff(a, b []byte) string {
	la, lb := strings.Split(string(a), "\n"), strings.Split(string(b), "\n")
	for i := 0; i < len(la) && i < len(lb); i++ {
		if la[i] != lb[i] {
			return fmt.Sprintf("line %d: checked in %q, generated %q", i+1, la[i], lb[i])
		}
	}
	return fmt.Sprintf("length %d vs %d lines", len(la), len(lb))
}

// --- 2. generator output does not depend on which files it is given, or in what order -------

type InvCase struct {
	Files []string // spec-bearing source files handed to ONE ow-specgen invocation, in this order
	Genny []int    // order in which the genny directives are run
}

var invSeq int

func TestGeneratorInvariance(t *testing.T) {
	setup(t)
	specs, err := specBlocks(scratch)
	if err != nil {
		t.Fatal(err)
	}
	fileSet := map[string]bool{}
	for _, s := range specs {
		fileSet[s.File] = true
	}
	var files []string
	for f := range fileSet {
		files = append(files, f)
	}
	sort.Strings(files)
	dirs := gennyDirectives(scratch)
	gen := func(rt *rapid.T) InvCase {
		n := rapid.IntRange(1, 6).Draw(rt, "n")
		if rapid.IntRange(0, 3).Draw(rt, "many") == 0 {
			n = rapid.IntRange(7, len(files)).Draw(rt, "nmany")
		}
		c := InvCase{}
		perm := rapid.Permutation(files).Draw(rt, "perm")
		c.Files = perm[:n]
		idx := make([]int, len(dirs))
		for i := range idx {
			idx[i] = i
		}
		k := rapid.IntRange(0, 2).Draw(rt, "ngenny")
		c.Genny = rapid.Permutation(idx).Draw(rt, "gperm")[:k]
		return c
	}
	check := func(c InvCase) (r pbt.Result) {
		invSeq++
		dir := filepath.Join(filepath.Dir(scratch), fmt.Sprintf("inv%d", invSeq))
		defer os.RemoveAll(dir)
		if err := copyTree(dir); err != nil {
			r.Failf("INFRASTRUCTURE: %v", err)
			return
		}
		var touched []string
		args := []string{}
		for _, f := range c.Files {
			args = append(args, "./"+f)
			for _, s := range specs {
				if s.File == f {
					g := filepath.Join(filepath.Dir(f), "generated_"+s.Name+".go")
					os.Remove(filepath.Join(dir, g))
					touched = append(touched, g)
				}
			}
		}
		if out, err := run(dir, filepath.Join(tools, "ow-specgen"), args...); err != nil {
			r.Failf("ow-specgen %v failed: %v\n%s", args, err, out)
			return
		}
		for _, gi := range c.Genny {
			d := dirs[gi]
			g := filepath.Join(d.Dir, "gen-"+d.File)
			os.Remove(filepath.Join(dir, g))
			touched = append(touched, g)
			if out, err := gennyRun(dir, d); err != nil {
				r.Failf("genny %v failed: %v\n%s", d, err, out)
				return
			}
		}
		r.NonTrivial = len(c.Files) >= 2
		for _, g := range touched {
			a, _ := os.ReadFile(filepath.Join(repo(), g))
			b, err := os.ReadFile(filepath.Join(dir, g))
			if err != nil {
				r.Failf("invocation %v did not produce %s", args, g)
				return
			}
			if !bytes.Equal(a, b) {
				r.Failf("invoked with %v (in this order) the generator writes a different %s: %s", args, g, firstDiff(a, b))
				return
			}
		}
		// nothing else changed
		for _, g := range generatedFiles(dir) {
			a, _ := os.ReadFile(filepath.Join(repo(), g))
			b, _ := os.ReadFile(filepath.Join(dir, g))
			if !bytes.Equal(a, b) {
				r.Failf("invocation %v changed %s", args, g)
				return
			}
		}
		return
	}
	// the invocations a developer types: the whole tree and each directory as the shell expands a glob (sorted),
	// the same reversed, and every spec file followed by the next one (each file is once the first of a pair)
	if sh, _ := pbt.Shard(); sh == 0 && !pbt.ReplayOnly() {
		rev := func(l []string) []string {
			o := make([]string, len(l))
			for i, f := range l {
				o[len(l)-1-i] = f
			}
			return o
		}
		groups := [][]string{files, rev(files)}
		byDir := map[string][]string{}
		var dnames []string
		for _, f := range files {
			d := filepath.Dir(f)
			if byDir[d] == nil {
				dnames = append(dnames, d)
			}
			byDir[d] = append(byDir[d], f)
		}
		for _, d := range dnames {
			groups = append(groups, byDir[d], rev(byDir[d]))
		}
		for i, f := range files {
			groups = append(groups, []string{f, files[(i+1)%len(files)]})
		}
		for _, g := range groups {
			if !pbt.Direct(t, InvCase{Files: g}, check) {
				return
			}
		}
	}
	// thorough: every ordered pair of spec files in one invocation (state carried from one file to the next
	// shows on some pair), spread over the shards
	if pbt.Thorough() && !pbt.ReplayOnly() {
		sh, n := pbt.Shard()
		k := 0
		for _, a := range files {
			for _, b := range files {
				if a == b {
					continue
				}
				k++
				if k%n != sh {
					continue
				}
				if !pbt.Direct(t, InvCase{Files: []string{a, b}}, check) {
					return
				}
			}
		}
	}
	pbt.Run(t, gen, check)
}

// --- 3. catalogue and Description() agree with the spec blocks -------------------------------

type SpecCase struct {
	File, Name string
}

var floatRe = `[+-]?(?:[0-9]*[.])?[0-9]+`
var rangeRe = regexp.MustCompile(`^\[(` + floatRe + `),(` + floatRe + `)\]`)
var defaultRe = regexp.MustCompile(`,\s*default=(` + floatRe + `)`)

func keys(v interface{}) []string {
	ms, _ := v.(yaml.MapSlice)
	var k []string
	for _, it := range ms {
		k = append(k, fmt.Sprint(it.Key))
	}
	return k
}

func field(blk yaml.MapSlice, name string) interface{} {
	for _, it := range blk {
		if fmt.Sprint(it.Key) == name {
			return it.Value
		}
	}
	return nil
}

func TestSpecsMatchCatalogue(t *testing.T) {
	if sh, _ := pbt.Shard(); sh != 0 {
		t.Skip()
	}
	specs, err := specBlocks(repo())
	if err != nil {
		t.Fatal(err)
	}
	seen := map[string]bool{}
	for _, s := range specs {
		s := s
		seen[s.Name] = true
		pbt.Direct(t, SpecCase{File: s.File, Name: s.Name}, func(c SpecCase) (r pbt.Result) {
			r.NonTrivial = true
			r.Key = "spec:" + c.Name
			r.Label("spec-vs-description")
			f := sim.Catalog[c.Name]
			if f == nil {
				r.Failf("model %s (spec block in %s) is not registered in the catalogue", c.Name, c.File)
				return
			}
			d := f().Description()
			same := func(what string, got, want []string) bool {
				if fmt.Sprint(got) != fmt.Sprint(want) {
					r.Failf("%s: Description().%s = %v, spec block lists %v", c.Name, what, got, want)
					return false
				}
				return true
			}
			if !same("Inputs", d.Inputs, keys(field(s.Block, "inputs"))) || !same("States", d.States, keys(field(s.Block, "states"))) ||
				!same("Outputs", d.Outputs, keys(field(s.Block, "outputs"))) {
				return
			}
			params, _ := field(s.Block, "parameters").(yaml.MapSlice)
			if len(params) != len(d.Parameters) {
				r.Failf("%s: %d parameters described, %d in the spec", c.Name, len(d.Parameters), len(params))
				return
			}
			dims := map[string]bool{}
			for i, it := range params {
				key := fmt.Sprint(it.Key)
				name, pdims := key, []string{}
				if j := strings.Index(key, "["); j >= 0 {
					name = key[:j]
					pdims = strings.Split(strings.TrimSuffix(key[j+1:], "]"), ",")
				}
				text := ""
				if it.Value != nil {
					text = fmt.Sprint(it.Value)
				}
				lo, hi, def := 0.0, 0.0, 0.0
				if m := rangeRe.FindStringSubmatch(text); m != nil {
					lo, _ = strconv.ParseFloat(m[1], 64)
					hi, _ = strconv.ParseFloat(m[2], 64)
				}
				if m := defaultRe.FindStringSubmatch(text); m != nil {
					def, _ = strconv.ParseFloat(m[1], 64)
				}
				g := d.Parameters[i]
				if g.Name != name || g.Default != def || g.Range[0] != lo || g.Range[1] != hi || fmt.Sprint(g.Dimensions) != fmt.Sprint(pdims) {
					r.Failf("%s parameter %d: described as %s default %v range %v dims %v; the spec says %s default %v range [%v %v] dims %v (%q)",
						c.Name, i, g.Name, g.Default, g.Range, g.Dimensions, name, def, lo, hi, pdims, text)
					return
				}
				for _, dd := range pdims {
					dims[dd] = true
				}
			}
			var dl []string
			for dd := range dims {
				dl = append(dl, dd)
			}
			sort.Strings(dl)
			gd := append([]string(nil), d.Dimensions...)
			sort.Strings(gd)
			if fmt.Sprint(gd) != fmt.Sprint(dl) {
				r.Failf("%s: Description().Dimensions = %v, spec uses %v", c.Name, d.Dimensions, dl)
			}
			return
		})
	}
	for name := range sim.Catalog {
		if !seen[name] {
			t.Errorf("catalogue entry %s has no OW-SPEC block", name)
		}
	}
}
