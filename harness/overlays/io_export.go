package io

// Injected into the repository's io package at build time through `go test -overlay`
// (nothing is added to /repo): exports the unexported selection helpers for direct
// enumeration and the package lock for the lock-state probe of the C08 check.

import "sync"

func VerifSliceSize(slice []int, size int) int { return sliceSize(slice, size) }

func VerifMakeHyperslab(slice [][]int, dims []int) (offset, stride, count, block []uint) {
	return makeHyperslab(slice, dims)
}

func VerifMutex() *sync.RWMutex { return &mu }
