package c03

import (
	"fmt"
	"testing"

	"pgregory.net/rapid"
	"verif/harness/hist"
	"verif/harness/pbt"
	"verif/harness/vops"
)

func TestMain(m *testing.M) { pbt.Main(m, "C03") }

// LockCase: one C01 history or one C02 view-operation case, executed on a Go-backed
// and on a C-backed root of equal contents; every observation must be identical.
type LockCase struct {
	Kind  string     // hist | vops
	H     *hist.Case `json:",omitempty"`
	V     *vops.Case `json:",omitempty"`
	Guard int        // 0 canaries only, 1 buffer end flush against a PROT_NONE page, 2 buffer start
}

func genLock(t *rapid.T) LockCase {
	lc := LockCase{Guard: rapid.IntRange(0, 2).Draw(t, "guard")}
	if rapid.Bool().Draw(t, "kind") {
		h := hist.Gen(t)
		lc.Kind, lc.H = "hist", &h
	} else {
		v := vops.Gen(t)
		lc.Kind, lc.V = "vops", &v
	}
	return lc
}

func checkLock(lc LockCase) (r pbt.Result) {
	var tg, tc []string
	var rg, rc pbt.Result
	switch lc.Kind {
	case "hist":
		g, c := *lc.H, *lc.H
		g.C, g.Guard = false, 0
		c.C, c.Guard = true, lc.Guard
		g.Ops = append([]hist.Op(nil), g.Ops...)
		for i := range g.Ops {
			g.Ops[i].SrcC = false
		}
		rg = hist.Exec(g, &tg)
		rc = hist.Exec(c, &tc)
	case "vops":
		g, c := *lc.V, *lc.V
		g.C, g.WC, g.NoPoke = false, false, true
		c.NoPoke = true
		c.C = true // the other operand keeps its drawn back-end: mixed Go/C operands are part of the domain
		c.Guard = lc.Guard
		rg = vops.Exec(g, &tg)
		rc = vops.Exec(c, &tc)
	}
	r.Labels = append(r.Labels, "kind:"+lc.Kind, fmt.Sprintf("guard:%d", lc.Guard))
	r.NonTrivial = rc.NonTrivial
	if rc.Fail != "" {
		r.Failf("C-backed run: %s", rc.Fail)
		return
	}
	if rg.Fail != "" {
		r.Failf("Go-backed run: %s", rg.Fail)
		return
	}
	if len(tg) != len(tc) {
		r.Failf("observation traces differ in length: Go %d, C %d", len(tg), len(tc))
		return
	}
	for i := range tg {
		if tg[i] != tc[i] {
			r.Failf("observation %d differs between back-ends:\n  Go: %s\n  C : %s", i, tg[i], tc[i])
			return
		}
	}
	return
}

func TestLockStepGoVsC(t *testing.T) { pbt.Run(t, genLock, checkLock) }

func FuzzLockStepGoVsC(f *testing.F) { pbt.Fuzz(f, genLock, checkLock) }
