package c03

import (
	"fmt"
	"sync"
	"testing"

	"pgregory.net/rapid"
	"verif/harness/arr"
	"verif/harness/pbt"
	vg "verif/harness/viewgen"
	vm "verif/harness/viewmodel"
)

// (c) Reading is reading.  The generated Run of every model starts one goroutine per cell, and all of them read
// scalar parameters, tables and inputs from the same array objects; through the C entry point those objects are
// C-backed.  A Go-native array can be read by any number of goroutines at once: so must a C-backed one.  Several
// goroutines read one view object through every read accessor and compare with the extensional model; the stage
// runs under the race detector, where an accessor that writes to the array object is reported whatever the timing.
type ReadCase struct {
	Typ     string
	C       bool
	Spec    vg.ViewSpec
	Readers int
	Rounds  int
}

func genRead(t *rapid.T) ReadCase {
	return ReadCase{Typ: rapid.SampledFrom(arr.Types).Draw(t, "type"), C: rapid.IntRange(0, 3).Draw(t, "c") > 0,
		Spec: vg.Draw(t, nil, 6, "view"), Readers: rapid.IntRange(2, 8).Draw(t, "readers"), Rounds: rapid.IntRange(1, 20).Draw(t, "rounds")}
}

func checkRead(c ReadCase) (r pbt.Result) {
	init := make([]float64, vm.Product(c.Spec.Root))
	for i := range init {
		init[i] = float64(i % 120)
	}
	root := arr.NewRoot(c.Typ, c.C, init, c.Spec.Root, 0)
	defer root.Free()
	v, err := c.Spec.Real(root.View)
	if err != nil {
		r.Failf("building the view: %v", err)
		return
	}
	want := c.Spec.Model(init).Values()
	shape := v.Shape()
	if vm.Product(shape) != len(want) {
		r.Failf("view of shape %v, the model has %d elements", shape, len(want))
		return
	}
	mx, mn := want[0], want[0]
	for _, x := range want {
		if x > mx {
			mx = x
		}
		if x < mn {
			mn = x
		}
	}
	r.Label(fmt.Sprintf("backing:c=%v", c.C))
	r.Label(fmt.Sprintf("rank:%d", len(shape)))
	r.NonTrivial = c.C && len(want) > 1
	errs := make([]string, c.Readers)
	var wg sync.WaitGroup
	for g := 0; g < c.Readers; g++ {
		wg.Add(1)
		go func(g int) {
			defer wg.Done()
			defer func() {
				if p := recover(); p != nil {
					errs[g] = fmt.Sprintf("reader %d panicked: %v", g, p)
				}
			}()
			for round := 0; round < c.Rounds && errs[g] == ""; round++ {
				k := 0
				vm.Each(shape, func(idx []int) {
					got := []float64{v.Get(idx)}
					switch len(idx) {
					case 1:
						got = append(got, v.Get1(idx[0]))
					case 2:
						got = append(got, v.Get2(idx[0], idx[1]))
					case 3:
						got = append(got, v.Get3(idx[0], idx[1], idx[2]))
					}
					for _, x := range got {
						if x != want[k] && errs[g] == "" {
							errs[g] = fmt.Sprintf("reader %d of %d: element %v read as %v, it holds %v", g, c.Readers, idx, x, want[k])
						}
					}
					k++
				})
				u := v.Unroll()
				for i := range want {
					if u[i] != want[i] && errs[g] == "" {
						errs[g] = fmt.Sprintf("reader %d of %d: Unroll()[%d] = %v, the view holds %v", g, c.Readers, i, u[i], want[i])
					}
				}
				if a, b := v.Maximum(), v.Minimum(); (a != mx || b != mn) && errs[g] == "" {
					errs[g] = fmt.Sprintf("reader %d of %d: Maximum, Minimum = %v, %v; the view holds %v, %v", g, c.Readers, a, b, mx, mn)
				}
				if fmt.Sprint(v.Shape()) != fmt.Sprint(shape) || v.NDims() != len(shape) || v.Len(0) != shape[0] {
					errs[g] = fmt.Sprintf("reader %d of %d: shape changed under reading", g, c.Readers)
				}
				_ = v.Contiguous()
				// a sub-view made while others read
				loc, step := make([]int, len(shape)), make([]int, len(shape))
				for d := range step {
					step[d] = 1
				}
				if s := v.Slice(loc, shape, step).Get(loc); s != want[0] && errs[g] == "" {
					errs[g] = fmt.Sprintf("reader %d of %d: first element of a full slice = %v, the view holds %v", g, c.Readers, s, want[0])
				}
			}
		}(g)
	}
	wg.Wait()
	for _, e := range errs {
		if e != "" {
			r.Failf("%s (%s, C-backed=%v, shape %v)", e, c.Typ, c.C, shape)
			return
		}
	}
	if e := root.Check(); e != nil {
		r.Failf("%v", e)
	}
	return
}

func TestConcurrentReaders(t *testing.T) { pbt.Run(t, genRead, checkRead) }
