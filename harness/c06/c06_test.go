package c06

import (
	"fmt"
	"math"
	"testing"

	"github.com/flowmatters/openwater-core/data"
	"github.com/flowmatters/openwater-core/sim"
	"pgregory.net/rapid"
	"verif/harness/pbt"
	"verif/harness/simref"
)

func TestMain(m *testing.M) { pbt.Main(m, "C06") }

type Case struct {
	A      simref.CellCase
	Splits []int // segment boundaries, strictly increasing, inside (0,T)
	// Mates: other cells of the same model run in the same vectorised Run calls (one shared state
	// array, sized by the model for the widest cell), as a driver hot-starting a whole batch does.
	Mates []simref.CellCase `json:",omitempty"`
}

func genFor(model string) func(t *rapid.T) Case {
	return func(t *rapid.T) Case {
		name := model
		if name == "" {
			name = rapid.SampledFrom(simref.Stateful()).Draw(t, "model")
		}
		c := Case{A: simref.DrawCellCase(t, name, 2, 80)}
		T := c.A.T()
		if name == "Sacramento" {
			// Sacramento keeps its two lower-zone free-water stores multiplied by (1+side) inside a call and divides
			// on return: a carried value differs from the one kept inside an uninterrupted call by up to an ulp
			// (round-off the property allows), and the kernel's integer number of increments per step turns an ulp
			// into a visible jump now and then (9e-9 relative seen in a store, 3e-8 in actualET).  With 1+side a power
			// of two the scaling is exact and split and uninterrupted runs can be compared at round-off level, so the
			// hot-start cases use side 0 or 1 (a missing or wrong scaling shows with side 1 as with any other).
			c.A.Cell[simref.ParamIndex(simref.New(name).Description(), "side")] = []float64{rapid.SampledFrom([]float64{0, 0, 1}).Draw(t, "side")}
		}
		if rapid.IntRange(0, 2).Draw(t, "batch") == 0 {
			for i := rapid.IntRange(1, 3).Draw(t, "mates"); i > 0; i-- {
				cell := simref.DrawCell(t, name)
				c.Mates = append(c.Mates, simref.CellCase{Model: name, Cell: cell, Inputs: simref.DrawInputs(t, name, cell, T)})
			}
		}
		k := rapid.IntRange(1, 4).Draw(t, "nsplits")
		seen := map[int]bool{}
		for i := 0; i < k; i++ {
			s := rapid.IntRange(1, T-1).Draw(t, "split")
			if rapid.IntRange(0, 3).Draw(t, "adjacent") == 0 && len(c.Splits) > 0 && c.Splits[len(c.Splits)-1]+1 < T {
				s = c.Splits[len(c.Splits)-1] + 1 // 1-step segment
			}
			if !seen[s] {
				seen[s] = true
				c.Splits = append(c.Splits, s)
			}
		}
		// sort
		for i := range c.Splits {
			for j := i + 1; j < len(c.Splits); j++ {
				if c.Splits[j] < c.Splits[i] {
					c.Splits[i], c.Splits[j] = c.Splits[j], c.Splits[i]
				}
			}
		}
		return c
	}
}

// storage routing: outflow = (newStorage - S(q))/dt with the index flow q solved to a
// mass-balance residual of massBalanceLimit (1e-3 m^3); the index flow carried inside one
// call only seeds the solver, so segmented and whole runs agree to a multiple of that.
const massBalanceLimit = 1e-3
const srFactor = 50

func check(c Case) (r pbt.Result) {
	name := c.A.Model
	desc := simref.New(name).Description()
	r.Label("model:" + name)
	st0 := c.A.State.Resolve(name, c.A.Cell)
	T := c.A.T()
	whole, fin := simref.Run1(name, c.A.Cell, c.A.Inputs, append([]float64(nil), st0...))
	bounds := append(append([]int{0}, c.Splits...), T)
	changed := false
	// the split run; nudge (when given) may move the states carried over split number s by a few ulps
	runSplit := func(nudge func(s int, st []float64)) ([][]float64, []float64) {
		seg := make([][]float64, len(desc.Outputs))
		st := append([]float64(nil), st0...)
		for s := 0; s+1 < len(bounds); s++ {
			a, b := bounds[s], bounds[s+1]
			in := make([][]float64, len(c.A.Inputs))
			for i := range in {
				in[i] = c.A.Inputs[i][a:b]
			}
			var o [][]float64
			prev := st
			carried := append([]float64(nil), st...)
			if nudge != nil && s > 0 {
				nudge(s-1, carried)
			}
			o, st = simref.Run1(name, c.A.Cell, in, carried)
			if s+2 < len(bounds) && simref.DiffBits("", prev, st) != "" {
				changed = true
			}
			for k := range seg {
				seg[k] = append(seg[k], o[k]...)
			}
		}
		return seg, st
	}
	seg, st := runSplit(nil)
	for s := 0; s+1 < len(bounds); s++ {
		if bounds[s+1]-bounds[s] == 1 {
			r.Label("1-step-segment")
		}
	}
	if len(c.Splits) >= 1 && (changed || simref.DiffBits("", st0, fin) != "") {
		r.NonTrivial = true
	}
	if len(c.Splits) >= 2 {
		r.Label("multiple-splits")
	}
	tolOut, tolState := 0.0, 0.0
	if name == "StorageRouting" {
		dt := c.A.Cell[simref.ParamIndex(desc, "DeltaT")][0]
		tolOut = srFactor * massBalanceLimit / dt
		tolState = srFactor * massBalanceLimit
	}
	// "to floating-point round-off": states that are stored in a transformed form (Sacramento keeps
	// lzfsc*(1+side) internally and divides on return) do not round-trip bit-exactly, so equality is
	// 1e-9 relative plus 1e-12 of the magnitude of the series compared; tol adds the solver tolerance.
	scale := 0.0
	same := func(a, b, tol float64) bool {
		if a == b || simref.SameBits(a, b) {
			return true
		}
		return math.Abs(a-b) <= tol+1e-9*math.Max(math.Abs(a), math.Abs(b))+1e-12*scale
	}
	maxAbs := func(v []float64) float64 {
		m := 0.0
		for _, x := range v {
			if math.Abs(x) > m && !math.IsInf(x, 0) {
				m = math.Abs(x)
			}
		}
		return m
	}
	// Known finding K1 (sacramento-uh-buffer): Sacramento's 5-ordinate unit-hydrograph buffer is a local
	// variable, not a state.  It explains differences in the channel-flow outputs (runoff, surfaceRunoff,
	// baseflow, actualET) during the 4 steps after a split when some ordinate uh2..uh5 is non-zero, and
	// nothing else: stores, imperviousRunoff and everything from the 5th step after a split still must agree.
	k1 := func(output string, t int) bool {
		if name != "Sacramento" {
			return false
		}
		lagged := false
		for _, p := range []string{"uh2", "uh3", "uh4", "uh5"} {
			if c.A.Cell[simref.ParamIndex(desc, p)][0] != 0 {
				lagged = true
			}
		}
		if !lagged || output == "imperviousRunoff" {
			return false
		}
		for _, s := range c.Splits {
			if t >= s && t < s+4 {
				return true
			}
		}
		return false
	}
	// Known finding K7 (dissolved-nutrient-prev-volume): InstreamDissolvedNutrientDecay (decay enabled) averages
	// the reach volume with the previous step's volume, which it keeps in a local seeded from the first step
	// of each call; it explains differences at the first step after a split when the volume changed there.
	k7 := func(t int) bool {
		if name != "InstreamDissolvedNutrientDecay" || c.A.Cell[simref.ParamIndex(desc, "doDecay")][0] < 0.5 {
			return false
		}
		vol := c.A.Inputs[simref.InputIndex(desc, "reachVolume")]
		for _, s := range c.Splits {
			if t == s && vol[t] != vol[t-1] {
				return true
			}
		}
		return false
	}
	// Known finding (storage-routing-unconverged, see C11): where the solver's own constants cannot guarantee
	// its tolerance the result depends on the index flow carried inside one call (only a solver start value,
	// not a state), so a split run may differ by more than the tolerance from that step on. Steps before the
	// first such step are still compared.
	srFrom := T + 1
	if name == "StorageRouting" && c.A.Cell[simref.ParamIndex(desc, "InflowBias")][0] == 0 {
		p := func(n string) float64 { return c.A.Cell[simref.ParamIndex(desc, n)][0] }
		prevS := st0[0]
		stor := whole[simref.OutputIndex(desc, "storage")]
		for t := 0; t < T; t++ {
			I, L := c.A.Inputs[0][t], c.A.Inputs[1][t]
			E := math.Min(math.Max(prevS, 0)/p("DeltaT")+I, p("area")*(c.A.Inputs[3][t]-c.A.Inputs[2][t])/p("DeltaT"))
			if simref.StorageRoutingSolverCanMiss(p("RoutingConstant"), p("RoutingPower"), p("deadStorage"), p("DeltaT"), prevS, I, L, E) {
				srFrom = t
				break
			}
			prevS = stor[t]
		}
	}
	compare := func(seg [][]float64, st []float64) (hit string, fail string) {
		for k := range whole {
			scale = maxAbs(whole[k])
			tol := tolOut
			if name == "StorageRouting" && desc.Outputs[k] == "storage" {
				tol = tolState
			}
			for t := 0; t < T; t++ {
				if !same(whole[k][t], seg[k][t], tol) {
					if t >= srFrom {
						if hit == "" {
							hit = "storage-routing-unconverged-hotstart"
						}
						continue
					}
					if k1(desc.Outputs[k], t) {
						if hit == "" {
							hit = "sacramento-uh-buffer"
						}
						continue
					}
					if k7(t) {
						if hit == "" {
							hit = "dissolved-nutrient-prev-volume"
						}
						continue
					}
					return hit, fmt.Sprintf("%s splits %v: output %s[t=%d] = %v in the uninterrupted run, %v in the split run (diff %g, tolerance %g)",
						name, c.Splits, desc.Outputs[k], t, whole[k][t], seg[k][t], whole[k][t]-seg[k][t], tol)
				}
			}
		}
		scale = maxAbs(fin)
		for j := range fin {
			tol := 0.0
			if name == "StorageRouting" {
				tol = tolState
				if j == 2 { // prevOutflow
					tol = tolOut
				}
			}
			if !same(fin[j], st[j], tol) {
				if srFrom <= T {
					continue
				}
				return hit, fmt.Sprintf("%s splits %v: final state %d = %v uninterrupted, %v split", name, c.Splits, j, fin[j], st[j])
			}
		}
		return hit, ""
	}
	hit, fail := compare(seg, st)
	if hit != "" {
		r.Hit = append(r.Hit, hit)
	}
	if fail != "" {
		r.Failf("%s", fail)
		return
	}
	if len(c.Mates) > 0 && r.Fail == "" {
		checkBatch(c, &r, same)
	}
	_ = fmt.Sprint
	return
}

// checkBatch: the same continuity for a whole batch of cells sharing one state array whose rows are
// as wide as the widest cell needs (InitialiseStates(N) of the model itself).
func checkBatch(c Case, r *pbt.Result, same func(a, b, tol float64) bool) {
	name := c.A.Model
	cellsCases := append([]simref.CellCase{c.A}, c.Mates...)
	N, T := len(cellsCases), c.A.T()
	cells := make([]simref.Cell, N)
	for i := range cells {
		cells[i] = cellsCases[i].Cell
	}
	r.Label("batch-of-cells")
	run := func(m sim.TimeSteppingModel, st data.ND2Float64, a, b int) [][][]float64 {
		desc := m.Description()
		blocks := make([][][]float64, N)
		for i := range blocks {
			blocks[i] = make([][]float64, len(desc.Inputs))
			for k := range blocks[i] {
				blocks[i][k] = cellsCases[i].Inputs[k][a:b]
			}
		}
		in := simref.Inputs3(blocks, len(desc.Inputs), b-a)
		out := sim.InitialiseOutputs(m, b-a, N)
		m.Run(in, st, out)
		res := make([][][]float64, N)
		for i := range res {
			res[i] = make([][]float64, len(desc.Outputs))
			for o := range res[i] {
				for t := 0; t < b-a; t++ {
					res[i][o] = append(res[i][o], out.Get3(i, o, t))
				}
			}
		}
		return res
	}
	mk := func() (sim.TimeSteppingModel, data.ND2Float64) {
		m := simref.New(name)
		simref.Prepare(m, simref.ParamMatrix(m.Description(), cells))
		return m, m.InitialiseStates(N)
	}
	desc := simref.New(name).Description()
	m1, st1 := mk()
	whole := run(m1, st1, 0, T)
	m2, st2 := mk()
	bounds := append(append([]int{0}, c.Splits...), T)
	seg := make([][][]float64, N)
	for i := range seg {
		seg[i] = make([][]float64, len(desc.Outputs))
	}
	for s := 0; s+1 < len(bounds); s++ {
		part := run(m2, st2, bounds[s], bounds[s+1])
		for i := range seg {
			for o := range seg[i] {
				seg[i][o] = append(seg[i][o], part[i][o]...)
			}
		}
	}
	if name == "Sacramento" || name == "InstreamDissolvedNutrientDecay" || name == "StorageRouting" {
		return // the single-cell part above asserts these with their findings / solver tolerance
	}
	for i := 0; i < N; i++ {
		for o := range whole[i] {
			for t := 0; t < T; t++ {
				if !same(whole[i][o][t], seg[i][o][t], 0) {
					r.Failf("%s batch of %d cells, splits %v: cell %d output %s[t=%d] = %v uninterrupted, %v split (state array %d wide)", name, N, c.Splits, i, desc.Outputs[o], t, whole[i][o][t], seg[i][o][t], st1.Len(1))
					return
				}
			}
		}
		for j := 0; j < st1.Len(1); j++ {
			if !same(st1.Get2(i, j), st2.Get2(i, j), 0) {
				r.Failf("%s batch of %d cells, splits %v: cell %d final state %d = %v uninterrupted, %v split", name, N, c.Splits, i, j, st1.Get2(i, j), st2.Get2(i, j))
				return
			}
		}
	}
}

func TestHotStartContinuity(t *testing.T) { pbt.Run(t, genFor(""), check) }

func TestHotStartPerModel(t *testing.T) {
	if pbt.ReplayOnly() {
		pbt.Run(t, genFor(""), check)
		return
	}
	if !pbt.Thorough() {
		t.Skip("thorough only")
	}
	sh, n := pbt.Shard()
	for i, name := range simref.Stateful() {
		if i%n != sh {
			continue
		}
		name := name
		t.Run(name, func(t *testing.T) { pbt.Run(t, genFor(name), check) })
	}
}
