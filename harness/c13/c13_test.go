package c13

import (
	"math"
	"testing"

	"pgregory.net/rapid"
	"verif/harness/pbt"
	"verif/harness/simref"
)

func TestMain(m *testing.M) { pbt.Main(m, "C13") }

type Case struct {
	A simref.CellCase
}

func gen(t *rapid.T) Case {
	return Case{A: simref.DrawCellCase(t, "Storage", 1, 40)}
}

// capped piecewise-linear lookup written for the check
func interp(x float64, xs, ys []float64) float64 {
	n := len(xs)
	if x <= xs[0] {
		return ys[0]
	}
	if x >= xs[n-1] {
		return ys[n-1]
	}
	for j := 1; j < n; j++ {
		if x <= xs[j] {
			f := (x - xs[j-1]) / (xs[j] - xs[j-1])
			return ys[j-1] + f*(ys[j]-ys[j-1])
		}
	}
	return ys[n-1]
}

func clamp(d, lo, hi float64) float64 {
	if d < lo {
		return lo
	}
	if d > hi {
		return hi
	}
	return d
}

func check(c Case) (r pbt.Result) {
	desc := simref.New("Storage").Description()
	tab := func(n string) []float64 { return c.A.Cell[simref.ParamIndex(desc, n)] }
	in := func(n string) []float64 { return c.A.Inputs[simref.InputIndex(desc, n)] }
	dt := tab("DeltaT")[0]
	vols, levels, areas, minR, maxR := tab("volumes"), tab("levels"), tab("areas"), tab("minRelease"), tab("maxRelease")
	top := vols[len(vols)-1]
	st0 := c.A.State.Resolve("Storage", c.A.Cell)
	out, fin := simref.Run1("Storage", c.A.Cell, c.A.Inputs, append([]float64(nil), st0...))
	V, Q := out[simref.OutputIndex(desc, "volume")], out[simref.OutputIndex(desc, "outflow")]
	RV, EV := out[simref.OutputIndex(desc, "rainfallVolume")], out[simref.OutputIndex(desc, "evaporationVolume")]
	prev := st0[0]
	spilled, emptied, atmos := false, false, false
	maxSlope := 0.0
	for j := 1; j < len(vols); j++ {
		for _, cv := range [][]float64{minR, maxR} {
			if sl := (cv[j] - cv[j-1]) / (vols[j] - vols[j-1]); sl > maxSlope {
				maxSlope = sl
			}
		}
	}
	for t := range V {
		for _, v := range []float64{V[t], Q[t], RV[t], EV[t]} {
			if !simref.Finite(v) {
				r.Failf("step %d: non-finite output (volume %v outflow %v rainfallVolume %v evaporationVolume %v)", t, V[t], Q[t], RV[t], EV[t])
				return
			}
		}
		if V[t] < 0 || Q[t] < -1e-12 || RV[t] < 0 || EV[t] < 0 {
			r.Failf("step %d: negative volume %v / outflow %v / rainfall volume %v / evaporation volume %v", t, V[t], Q[t], RV[t], EV[t])
			return
		}
		I := in("inflow")[t]
		want := prev + (I-Q[t])*dt + (RV[t]-EV[t])*dt
		scale := math.Abs(prev) + (I+Q[t]+RV[t]+EV[t])*dt
		if math.Abs(V[t]-want) > 1e-9*(1+scale) {
			r.Failf("step %d: water balance open: volume %v, but previous volume %v + (inflow %v - outflow %v)*%v + (reported rainfall %v - evaporation %v)*%v = %v (error %g m^3; rain %v mm pet %v mm)",
				t, V[t], prev, I, Q[t], dt, RV[t], EV[t], dt, want, V[t]-want, in("rainfall")[t], in("pet")[t])
			return
		}
		if (in("rainfall")[t] > 0 && prev > 0) || (in("pet")[t] > 0 && prev > 0) {
			atmos = true
		}
		// release rules: the release is clamp(demand, minRelease(v), maxRelease(v)), non-decreasing in v for
		// monotone curves, and within a step the volume moves monotonically between its end values
		vlo, vhi := math.Min(prev, V[t]), math.Max(prev, V[t])
		d := in("demand")[t]
		rlo := clamp(d, interp(vlo, vols, minR), interp(vlo, vols, maxR))
		rhi := clamp(d, interp(vhi, vols, minR), interp(vhi, vols, maxR))
		// numerical slack of the model's own integrator: a sub-step is accepted when its two release estimates agree
		// to 1e-4 m^3/s or 1e-5 relative, and unconditionally once it is down to 60 s, during which the trial volume
		// can overshoot the end volume by at most (inflow + release) * 60 s, i.e. the release by that times the
		// steepest slope of the release curves
		eps := 3e-4 + 5e-5*rhi + maxSlope*60*(I+rhi)
		// ... and the integrator does not resolve an equilibrium it crosses inside the step: once the release is
		// within its absolute tolerance of the net inflow, sub-steps of any length are accepted and the volume
		// settles around the level where release = net inflow, on either side of it (a reach at 509.7 m^3 with a
		// 1658 s time constant and 5.9e-5 m^3/s of rain ends the day at 503.9, having dipped to where the minimum
		// release is zero, not at the exact 503.07).  Beyond such an equilibrium the release is bounded by the net
		// inflow itself, so the bounds are relaxed to it.  The
		// net inflow is the inflow plus the reported rain minus evaporation rate, the latter known to a factor of 2
		// (the surface area varies within the step), and not credited at all from an empty store.
		atm := RV[t] - EV[t]
		aLo, aHi := 0.5*atm, 2*atm
		if atm < 0 {
			aLo, aHi = 2*atm, 0.5*atm
		}
		if interp(vlo, vols, areas) == 0 && aLo > 0 {
			aLo = 0
		}
		netLo, netHi := math.Max(0, I+aLo), I+aHi
		// (the end volume itself can lie on the far side: after a dip below the equilibrium a long sub-step started
		// at zero release carries the volume above it again; this needs a net inflow, pure draw-down is monotone)
		if netHi > 0 && netLo < rlo {
			rlo = netLo
			r.Label("equilibrium-may-be-crossed")
		}
		if netHi > rhi {
			rhi = netHi
		}
		if Q[t] < rlo-eps {
			r.Failf("step %d: outflow %v below the release rule's minimum %v over the volumes traversed [%v, %v] (demand %v)", t, Q[t], rlo, vlo, vhi, d)
			return
		}
		if Q[t] > rhi+eps {
			// more than the release rule allows: only as spill above the top of the volume table
			if vhi < top*(1-1e-9) {
				r.Failf("step %d: outflow %v exceeds the release rule's maximum %v over the volumes traversed [%v, %v] although the volume stayed below full supply %v (demand %v)", t, Q[t], rhi, vlo, vhi, top, d)
				return
			}
			spilled = true
		}
		if V[t] < 0.1*top {
			emptied = true
		}
		prev = V[t]
	}
	// final level and area are the table values of the final volume
	if fin[0] != V[len(V)-1] {
		r.Failf("final volume state %v != last reported volume %v", fin[0], V[len(V)-1])
		return
	}
	wl, wa := interp(fin[0], vols, levels), interp(fin[0], vols, areas)
	if math.Abs(fin[1]-wl) > 1e-9*(1+math.Abs(wl)) || math.Abs(fin[2]-wa) > 1e-9*(1+math.Abs(wa)) {
		r.Failf("final level/area %v/%v are not the table values %v/%v of the final volume %v", fin[1], fin[2], wl, wa, fin[0])
		return
	}
	if spilled {
		r.Label("spill")
	}
	if emptied {
		r.Label("below-10%")
	}
	if atmos {
		r.Label("rain/evaporation-on-water")
	}
	r.NonTrivial = (spilled && emptied) || atmos
	return
}

func TestStorageBalanceAndRelease(t *testing.T) { pbt.Run(t, gen, check) }

// Long series with sustained sub-stepping (demand above a sloping maximum-release curve while the
// store draws down and refills): the bookkeeping inside the adaptive loop must stay right over
// hundreds of thousands of accepted sub-steps, not just over the few of a short series.
func genLong(t *rapid.T) Case {
	c := Case{A: simref.DrawCellCase(t, "Storage", 700, 1500)}
	desc := simref.New("Storage").Description()
	maxR := c.A.Cell[simref.ParamIndex(desc, "maxRelease")]
	vols := c.A.Cell[simref.ParamIndex(desc, "volumes")]
	dt := c.A.Cell[simref.ParamIndex(desc, "DeltaT")][0]
	dem := c.A.Inputs[simref.InputIndex(desc, "demand")]
	inf := c.A.Inputs[simref.InputIndex(desc, "inflow")]
	// a stiff release rule: time constant 1/slope = 1e4 s, far below the daily step, so the controller
	// must take of the order of a thousand sub-steps per day
	minR := c.A.Cell[simref.ParamIndex(desc, "minRelease")]
	for i := range maxR {
		maxR[i] = 1e-4 * vols[i]
		minR[i] = 0
	}
	c.A.Cell[simref.ParamIndex(desc, "DeltaT")][0] = 86400
	_ = dt
	for k := range dem {
		dem[k] = 3 * maxR[len(maxR)-1] // always above the curve: the release follows maxRelease(V)
		// a new equilibrium volume every day (inflow = maxRelease(V_eq)), so every day starts off-equilibrium
		inf[k] = rapid.Float64Range(0.1, 0.7).Draw(t, "inflowFrac") * maxR[len(maxR)-1]
	}
	c.A.State = simref.StateSpec{Direct: []float64{vols[len(vols)-1], 0, 0}}
	return c
}

func TestStorageLongSeries(t *testing.T) {
	pbt.Run(t, genLong, func(c Case) pbt.Result {
		r := check(c)
		r.Label("long-series-sustained-sub-stepping")
		return r
	})
}

// The sub-step controller at its floor.  A release curve whose time constant 1/slope lies between the
// controller's floor (6 s) and the last sub-step above it (DeltaT/2^k in (6, 12], or a DeltaT that small): a
// draw-down towards a much lower equilibrium then overdraws in the trial at that sub-step, is accepted at
// exactly 6 s, and leaves a remainder of the time step that is not a power-of-two fraction of it.  Every
// second of the step still has to be integrated: the per-step balance is checked over the full DeltaT.
// (Slopes above 1/6 per second make the kernel panic by design and are outside the domain.)
func genFloor(t *rapid.T) Case {
	c := Case{A: simref.DrawCellCase(t, "Storage", 2, 10)}
	desc := simref.New("Storage").Description()
	maxR := c.A.Cell[simref.ParamIndex(desc, "maxRelease")]
	minR := c.A.Cell[simref.ParamIndex(desc, "minRelease")]
	vols := c.A.Cell[simref.ParamIndex(desc, "volumes")]
	dem := c.A.Inputs[simref.InputIndex(desc, "demand")]
	inf := c.A.Inputs[simref.InputIndex(desc, "inflow")]
	pet := c.A.Inputs[simref.InputIndex(desc, "pet")]
	dtv := rapid.SampledFrom([]float64{86400, 21600, 3600, 600, 150, 80, 20, 12, 11, 10, 9, 8, 7}).Draw(t, "floorDt")
	c.A.Cell[simref.ParamIndex(desc, "DeltaT")][0] = dtv
	// the last sub-step above the floor that halving reaches from this DeltaT
	sub := dtv
	for sub > 12 {
		sub /= 2
	}
	lo := 1.02 / sub
	if lo < 0.05 {
		lo = 0.05
	}
	s := rapid.Float64Range(lo, 0.16).Draw(t, "floorSlope")
	for i := range maxR {
		maxR[i] = s * vols[i]
		minR[i] = 0
	}
	top := vols[len(vols)-1]
	for k := range dem {
		dem[k] = 3 * maxR[len(maxR)-1]
		// equilibrium volume inflow/s, anywhere over six decades below full supply: a step whose inflow falls by
		// more than about five times starts far enough above its equilibrium to overdraw in the trial
		inf[k] = s * top * math.Pow(10, -rapid.Float64Range(0.3, 6).Draw(t, "inflowDecades"))
		pet[k] = 0 // evaporation from a store that the release has all but emptied is outside this class
	}
	c.A.State = simref.StateSpec{Direct: []float64{top * rapid.Float64Range(0.05, 1).Draw(t, "v0frac"), 0, 0}}
	return c
}

func TestStorageStepFloor(t *testing.T) {
	pbt.Run(t, genFloor, func(c Case) pbt.Result {
		r := check(c)
		r.Label("sub-step-floor-class")
		// rule for "the controller was at its floor": at the start of some step the trial at the last sub-step
		// above 6 s overdraws (then so does every longer one, the trial volume being linear in the sub-step)
		desc := simref.New("Storage").Description()
		dtv := c.A.Cell[simref.ParamIndex(desc, "DeltaT")][0]
		vols := c.A.Cell[simref.ParamIndex(desc, "volumes")]
		maxR := c.A.Cell[simref.ParamIndex(desc, "maxRelease")]
		s := maxR[len(maxR)-1] / vols[len(vols)-1]
		sub := dtv
		for sub > 12 {
			sub /= 2
		}
		if r.Fail != "" {
			return r
		}
		out, _ := simref.Run1("Storage", c.A.Cell, c.A.Inputs, append([]float64(nil), c.A.State.Resolve("Storage", c.A.Cell)...))
		V := out[simref.OutputIndex(desc, "volume")]
		prev := c.A.State.Resolve("Storage", c.A.Cell)[0]
		hit := false
		for k, I := range c.A.Inputs[simref.InputIndex(desc, "inflow")] {
			if sub > 6 && prev+(I-s*prev)*sub < 0 {
				hit = true
			}
			prev = V[k]
		}
		if hit {
			r.Label("sub-step-floor-reached")
		}
		r.NonTrivial = r.NonTrivial || hit
		return r
	})
}
