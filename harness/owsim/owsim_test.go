package main

// C07 (and the ow-sim half of C05): the repository's cmd/ow-sim sources are mapped into this
// directory by `go test -overlay`, so run_simulation, the generation loop, the writer hand-off and
// the flag variables are driven in-process, over the HDF5 stand-in.

import (
	"flag"
	"fmt"
	"math"
	"os"
	"path/filepath"
	"runtime"
	"sort"
	"strings"
	"testing"
	"time"

	"gonum.org/v1/hdf5"
	"pgregory.net/rapid"
	"verif/harness/pbt"
	"verif/harness/simref"
)

func TestMain(m *testing.M) {
	// ow-sim's split-output option re-executes its own binary with -writer <file>, reading a protobuf
	// stream on stdin. Here that binary is this test binary: serve the request and exit.
	for _, a := range os.Args[1:] {
		if a == "-writer" || a == "--writer" {
			flag.Parse()
			hdf5.Persist = true
			run_writer(flag.Args())
			os.Exit(0)
		}
	}
	id := "C07"
	if os.Getenv("VERIF_PROPERTY") != "" {
		id = os.Getenv("VERIF_PROPERTY")
	}
	pbt.Main(m, id)
}

type Node struct {
	Cell   simref.Cell
	Inputs [][]float64 `json:",omitempty"` // stored input series (models with an inputs dataset)
}

type ModelSpec struct {
	Name      string
	HasInputs bool
	Gens      [][]Node // nodes per generation (may be empty)
}

type Link struct {
	SrcModel, SrcGen, SrcNode, SrcVar int // node = index within the generation
	DstModel, DstGen, DstNode, DstVar int
}

type Case struct {
	T, G                                           int
	Models                                         []ModelSpec
	Links                                          []Link
	OutputFile, Overwrite                          bool
	OutputsFor, NoOutputsFor                       []string `json:",omitempty"`
	InputsFor, NoInputsFor                         []string `json:",omitempty"`
	SepParams, SepStates, SepSeries, SepFinalState bool
	WriterDelayUs, ReaderDelayUs                   int      // injected at every mutating / reading stand-in call
	Split                                          []string `json:",omitempty"` // models whose results go to their own file through the -outputs writer sub-process
	Repeat                                         int      // C05: run the same graph this many times and compare
	Procs                                          int      // C05: GOMAXPROCS
}

// models whose kernels accept any non-negative input (links add arbitrary upstream outputs)
var pool = []string{"RunoffCoefficient", "Sum", "Input", "FixedPartition", "EmcDwc", "FixedConcentration", "Lag", "Muskingum",
	"GR4J", "Simhyd", "DepthToRate", "ApplyScalingFactor", "Gate", "StorageRouting", "LumpedConstituentRouting", "InstreamCoarseSediment",
	"StorageTrapAll", "PartitionDemand", "DeliveryRatio", "Surm", "RatingCurvePartition", "Storage"}

// models with table-valued parameters (the parameter dataset is padded to the longest table of any node; ow-sim
// sizes the model from the whole dataset).  Their kernels only accept inputs inside their tables, so they always
// have stored inputs and are never the destination of a link.
var tabled = map[string]bool{"RatingCurvePartition": true, "Storage": true}

func subset(t *rapid.T, names []string, label string) []string {
	var r []string
	for _, n := range names {
		if rapid.IntRange(0, 2).Draw(t, label) == 0 {
			r = append(r, n)
		}
	}
	if rapid.IntRange(0, 5).Draw(t, label+"x") == 0 {
		r = append(r, "NotInTheGraph")
	}
	return r
}

func gen(t *rapid.T) Case {
	c := Case{T: rapid.IntRange(1, 20).Draw(t, "T"), G: rapid.IntRange(1, 5).Draw(t, "G")}
	nm := rapid.IntRange(1, 4).Draw(t, "nmodels")
	names := rapid.Permutation(pool).Draw(t, "models")[:nm]
	for mi, name := range names {
		ms := ModelSpec{Name: name, HasInputs: mi == 0 || rapid.Bool().Draw(t, "hasInputs") || tabled[name]}
		ms.Gens = make([][]Node, c.G)
		for g := 0; g < c.G; g++ {
			k := rapid.IntRange(0, 4).Draw(t, "count")
			if g == 0 && mi == 0 && k == 0 {
				k = 1
			}
			if tabled[name] && g == c.G-1 && k == 0 {
				// a model group with a [rows, 0] parameter table cannot be sized at all (FindDimensions of an empty
				// table); no writer produces one, so a tabled model has at least one node
				any := false
				for _, ns := range ms.Gens {
					any = any || len(ns) > 0
				}
				if !any {
					k = 1
				}
			}
			for i := 0; i < k; i++ {
				cell := simref.DrawCell(t, name)
				n := Node{Cell: cell}
				if ms.HasInputs {
					n.Inputs = simref.DrawInputs(t, name, cell, c.T)
				}
				ms.Gens[g] = append(ms.Gens[g], n)
			}
		}
		c.Models = append(c.Models, ms)
	}
	// links: forward in generation order only
	type slot struct{ m, g, n int }
	var slots []slot
	for mi, ms := range c.Models {
		for g := range ms.Gens {
			for n := range ms.Gens[g] {
				slots = append(slots, slot{mi, g, n})
			}
		}
	}
	nl := rapid.IntRange(0, 10).Draw(t, "nlinks")
	for i := 0; i < nl; i++ {
		s := rapid.SampledFrom(slots).Draw(t, "src")
		var later []slot
		for _, d := range slots {
			if d.g > s.g && !tabled[c.Models[d.m].Name] {
				later = append(later, d)
			}
		}
		if len(later) == 0 {
			continue
		}
		d := rapid.SampledFrom(later).Draw(t, "dst")
		if len(c.Links) > 0 && rapid.IntRange(0, 2).Draw(t, "sameDest") == 0 {
			// several links into one input
			p := c.Links[rapid.IntRange(0, len(c.Links)-1).Draw(t, "prev")]
			if p.DstGen > s.g {
				d = slot{p.DstModel, p.DstGen, p.DstNode}
			}
		}
		sd, dd := simref.New(c.Models[s.m].Name).Description(), simref.New(c.Models[d.m].Name).Description()
		c.Links = append(c.Links, Link{s.m, s.g, s.n, rapid.IntRange(0, len(sd.Outputs)-1).Draw(t, "svar"),
			d.m, d.g, d.n, rapid.IntRange(0, len(dd.Inputs)-1).Draw(t, "dvar")})
	}
	sort.SliceStable(c.Links, func(i, j int) bool { return c.Links[i].SrcGen < c.Links[j].SrcGen })
	c.OutputFile = rapid.IntRange(0, 9).Draw(t, "outfile") > 0
	c.Overwrite = rapid.IntRange(0, 3).Draw(t, "overwrite") == 0
	if rapid.IntRange(0, 2).Draw(t, "flags") == 0 {
		c.OutputsFor = subset(t, names, "of")
		c.NoOutputsFor = subset(t, names, "nof")
		c.InputsFor = subset(t, names, "if")
		c.NoInputsFor = subset(t, names, "nif")
	}
	if c.OutputFile && rapid.IntRange(0, 7).Draw(t, "split") == 0 {
		// the split model must have nodes in the last generation: only then does ow-sim close the writer's
		// pipe and wait for it (otherwise the sub-process outlives run_simulation; see DESIGN.md)
		for _, ms := range c.Models {
			if len(ms.Gens[c.G-1]) > 0 && rapid.Bool().Draw(t, "splitThis") {
				c.Split = append(c.Split, ms.Name)
			}
		}
	}
	c.SepParams = rapid.IntRange(0, 3).Draw(t, "sp") == 0
	c.SepStates = rapid.IntRange(0, 3).Draw(t, "ss") == 0
	c.SepSeries = rapid.IntRange(0, 3).Draw(t, "st") == 0
	c.SepFinalState = rapid.IntRange(0, 3).Draw(t, "sf") == 0
	// delay plan: mostly none; a slow writer is expensive (the code sleeps 0.5 s per mis-delivered token)
	switch rapid.IntRange(0, 19).Draw(t, "delay") {
	case 0:
		c.WriterDelayUs = rapid.IntRange(100, 2000).Draw(t, "wd")
	case 1, 2, 3:
		c.ReaderDelayUs = rapid.IntRange(100, 2000).Draw(t, "rd")
	case 4, 5:
		c.WriterDelayUs, c.ReaderDelayUs = rapid.IntRange(1, 200).Draw(t, "wd2"), rapid.IntRange(1, 200).Draw(t, "rd2")
	}
	return c
}

// ---------------------------------------------------------------------------
// sequential reference interpreter

type refResult struct {
	outputs, inputs, states map[string][][]float64 // model -> global row -> flattened values
}

func contains(l []string, s string) bool {
	for _, x := range l {
		if x == s {
			return true
		}
	}
	return false
}

func writeForRef(model string, inc, exc []string, def bool) bool {
	if contains(inc, model) {
		return true
	}
	if contains(exc, model) {
		return false
	}
	return def
}

func reference(c Case) refResult {
	res := refResult{map[string][][]float64{}, map[string][][]float64{}, map[string][][]float64{}}
	type nodeState struct {
		in  [][]float64
		out [][]float64
		fin []float64
	}
	ns := make([][][]*nodeState, len(c.Models))
	for mi, ms := range c.Models {
		desc := simref.New(ms.Name).Description()
		ns[mi] = make([][]*nodeState, c.G)
		for g := range ms.Gens {
			for _, n := range ms.Gens[g] {
				st := &nodeState{in: make([][]float64, len(desc.Inputs))}
				for i := range st.in {
					st.in[i] = make([]float64, c.T)
					if n.Inputs != nil {
						copy(st.in[i], n.Inputs[i])
					}
				}
				ns[mi][g] = append(ns[mi][g], st)
			}
		}
	}
	for g := 0; g < c.G; g++ {
		for mi, ms := range c.Models {
			for ni, n := range ms.Gens[g] {
				st := ns[mi][g][ni]
				st.out, st.fin = simref.Run1(ms.Name, n.Cell, st.in, simref.InitStates(ms.Name, n.Cell))
			}
		}
		for _, l := range c.Links {
			if l.SrcGen != g {
				continue
			}
			src, dst := ns[l.SrcModel][l.SrcGen][l.SrcNode], ns[l.DstModel][l.DstGen][l.DstNode]
			for k := 0; k < c.T; k++ {
				dst.in[l.DstVar][k] += src.out[l.SrcVar][k]
			}
		}
	}
	for mi, ms := range c.Models {
		for g := range ms.Gens {
			for ni := range ms.Gens[g] {
				st := ns[mi][g][ni]
				flat := func(v [][]float64) []float64 {
					var r []float64
					for _, s := range v {
						r = append(r, s...)
					}
					return r
				}
				res.outputs[ms.Name] = append(res.outputs[ms.Name], flat(st.out))
				res.inputs[ms.Name] = append(res.inputs[ms.Name], flat(st.in))
				res.states[ms.Name] = append(res.states[ms.Name], st.fin)
			}
		}
	}
	return res
}

// ---------------------------------------------------------------------------

var caseSeq int

type files struct {
	in, out, params, states, series, finalStates string
	split                                        map[string]string
}

func writeInputFile(c Case, f files) error {
	for _, fn := range []string{f.in, f.params, f.states, f.series} {
		if err := hdf5.FakeCreateFile(fn); err != nil {
			return err
		}
	}
	var names []string
	for _, ms := range c.Models {
		names = append(names, ms.Name)
	}
	if err := hdf5.FakeStringDataset(f.in, "/META/models", names); err != nil {
		return err
	}
	hdf5.FakeEnsureGroup(f.in, "/DIMENSIONS")
	lv := make([]float64, 0, 10*len(c.Links))
	globalRow := func(m, g, n int) int {
		r := 0
		for gg := 0; gg < g; gg++ {
			r += len(c.Models[m].Gens[gg])
		}
		return r + n
	}
	for _, l := range c.Links {
		lv = append(lv, float64(l.SrcGen), float64(l.SrcModel), float64(globalRow(l.SrcModel, l.SrcGen, l.SrcNode)), float64(l.SrcNode), float64(l.SrcVar),
			float64(l.DstGen), float64(l.DstModel), float64(globalRow(l.DstModel, l.DstGen, l.DstNode)), float64(l.DstNode), float64(l.DstVar))
	}
	if err := hdf5.FakePut(f.in, "/LINKS", "u32", []int{len(c.Links), 10}, lv); err != nil {
		return err
	}
	for _, ms := range c.Models {
		desc := simref.New(ms.Name).Description()
		base := "/MODELS/" + ms.Name + "/"
		var batches []float64
		var cells []simref.Cell
		var nodes []Node
		total := 0
		for g := range ms.Gens {
			total += len(ms.Gens[g])
			batches = append(batches, float64(total))
			for _, n := range ms.Gens[g] {
				cells = append(cells, n.Cell)
				nodes = append(nodes, n)
			}
		}
		if err := hdf5.FakePut(f.in, base+"batches", "i32", []int{c.G}, batches); err != nil {
			return err
		}
		// parameters [rows, nodes]
		rows := 0
		var pvals []float64
		if total > 0 {
			pm := simref.ParamMatrix(desc, cells)
			rows = pm.Len(0)
			pvals = append(pvals, pm.Unroll()...)
		}
		if err := hdf5.FakePut(f.params, base+"parameters", "f64", []int{rows, total}, pvals); err != nil {
			return err
		}
		// states [nodes, width]: the model's own initial states, padded to the widest
		width := 0
		st := make([][]float64, total)
		for i, n := range nodes {
			st[i] = simref.InitStates(ms.Name, n.Cell)
			if len(st[i]) > width {
				width = len(st[i])
			}
		}
		sv := make([]float64, total*width)
		for i := range st {
			copy(sv[i*width:], st[i])
		}
		if err := hdf5.FakePut(f.states, base+"states", "f64", []int{total, width}, sv); err != nil {
			return err
		}
		if ms.HasInputs {
			iv := make([]float64, 0, total*len(desc.Inputs)*c.T)
			for _, n := range nodes {
				for i := range desc.Inputs {
					iv = append(iv, n.Inputs[i]...)
				}
			}
			if err := hdf5.FakePut(f.series, base+"inputs", "f64", []int{total, len(desc.Inputs), c.T}, iv); err != nil {
				return err
			}
		}
	}
	return nil
}

func setFlags(c Case, f files) {
	*overwrite = c.Overwrite
	*outputsFor = strings.Join(c.OutputsFor, ",")
	*noOutputsFor = strings.Join(c.NoOutputsFor, ",")
	*inputsFor = strings.Join(c.InputsFor, ",")
	*noInputsFor = strings.Join(c.NoInputsFor, ",")
	*parameterInputFile, *statesInputFile, *timeseriesInputFile, *statesOutputFile = "", "", "", ""
	if f.params != f.in {
		*parameterInputFile = f.params
	}
	if f.states != f.in {
		*statesInputFile = f.states
	}
	if f.series != f.in {
		*timeseriesInputFile = f.series
	}
	if f.finalStates != f.out {
		*statesOutputFile = f.finalStates
	}
	*splitOutputs = ""
	var pairs []string
	for _, m := range c.Split {
		pairs = append(pairs, m+"="+f.split[m])
	}
	*splitOutputs = strings.Join(pairs, ",")
	*writerMode = false
	verbose = false
}

var devnull *os.File

func quiet(f func()) {
	if devnull == nil {
		devnull, _ = os.OpenFile(os.DevNull, os.O_WRONLY, 0)
	}
	old := os.Stdout
	os.Stdout = devnull
	defer func() { os.Stdout = old }()
	f()
}

// runOnce builds the files, runs the real run_simulation and returns the file names.
func runOnce(c Case, log bool) (files, error) {
	hdf5.Reset()
	caseSeq++
	dir := os.Getenv("VERIF_WORK")
	if dir == "" {
		dir = os.TempDir()
	}
	p := func(s string) string { return filepath.Join(dir, fmt.Sprintf("owsim_%d_%s.h5", caseSeq, s)) }
	f := files{in: p("in"), out: p("out")}
	f.params, f.states, f.series, f.finalStates = f.in, f.in, f.in, f.out
	if c.SepParams {
		f.params = p("params")
	}
	if c.SepStates {
		f.states = p("states")
	}
	if c.SepSeries {
		f.series = p("series")
	}
	if c.SepFinalState {
		f.finalStates = p("final")
	}
	f.split = map[string]string{}
	for _, m := range c.Split {
		f.split[m] = p("split_" + m)
	}
	if err := writeInputFile(c, f); err != nil {
		return f, err
	}
	if c.OutputFile && c.Overwrite {
		// a stale output file with a dataset of the wrong shape: -overwrite must get rid of it
		hdf5.FakeCreateFile(f.out)
		hdf5.FakePut(f.out, "/MODELS/"+c.Models[0].Name+"/outputs", "f64", []int{1, 1, 1}, []float64{-1})
	}
	setFlags(c, f)
	hdf5.Hook = nil
	if c.WriterDelayUs > 0 || c.ReaderDelayUs > 0 {
		wd, rd := time.Duration(c.WriterDelayUs)*time.Microsecond, time.Duration(c.ReaderDelayUs)*time.Microsecond
		hdf5.Hook = func(op string, mutating bool) {
			if mutating && wd > 0 && op == "H5Dwrite" {
				time.Sleep(wd)
			} else if !mutating && rd > 0 && op == "H5Dread" {
				time.Sleep(rd)
			}
		}
	}
	hdf5.LogCalls = log
	hdf5.Persist = len(c.Split) > 0
	args := []string{f.in}
	if c.OutputFile {
		args = append(args, f.out)
	}
	quiet(func() { run_simulation(args) })
	hdf5.Hook = nil
	hdf5.LogCalls = false
	return f, nil // hdf5.Persist stays as set: the caller still reads the writer process's files
}

func sameBits(a, b float64) bool {
	return math.Float64bits(a) == math.Float64bits(b) || (math.IsNaN(a) && math.IsNaN(b))
}

// compare the output file with the reference; returns a failure text or "".
func compareWithReference(c Case, f files, ref refResult) string {
	for _, ms := range c.Models {
		desc := simref.New(ms.Name).Description()
		total := 0
		for g := range ms.Gens {
			total += len(ms.Gens[g])
		}
		base := "/MODELS/" + ms.Name + "/"
		wantOut := writeForRef(ms.Name, c.OutputsFor, c.NoOutputsFor, true)
		wantIn := writeForRef(ms.Name, c.InputsFor, c.NoInputsFor, len(ms.Gens[0]) == 0)
		type dsSpec struct {
			file, name string
			want       bool
			rows       [][]float64
			width      int
		}
		stateWidth := 0
		for _, r := range ref.states[ms.Name] {
			if len(r) > stateWidth {
				stateWidth = len(r)
			}
		}
		specs := []dsSpec{
			{f.out, "outputs", wantOut, ref.outputs[ms.Name], len(desc.Outputs) * c.T},
			{f.out, "inputs", wantIn, ref.inputs[ms.Name], len(desc.Inputs) * c.T},
			{f.finalStates, "states", true, ref.states[ms.Name], stateWidth},
		}
		if dest := f.split[ms.Name]; dest != "" {
			// results of this model travel to the writer sub-process, which owns its own file
			specs[0].file, specs[1].file = dest, dest
			specs = specs[:2] // final states: see the split-writer note in DESIGN.md (not part of the stream)
		}
		for _, sp := range specs {
			vals, dims, ok := hdf5.FakeFloat64s(sp.file, base+sp.name)
			if total == 0 || !sp.want {
				if ok && sp.file != f.in && !(sp.name == "states" && f.finalStates == f.states) {
					return fmt.Sprintf("%s%s was written although it should not be (nodes %d, selected %v)", base, sp.name, total, sp.want)
				}
				continue
			}
			if !ok {
				return fmt.Sprintf("%s%s is missing from %s", base, sp.name, filepath.Base(sp.file))
			}
			if int(dims[0]) != total {
				return fmt.Sprintf("%s%s has %d rows, the model has %d nodes", base, sp.name, dims[0], total)
			}
			w := len(vals) / total
			if sp.width == 0 && len(vals) == 0 {
				continue
			}
			for row := 0; row < total; row++ {
				want := sp.rows[row]
				for k := 0; k < w; k++ {
					wv := 0.0
					if k < len(want) {
						wv = want[k]
					}
					if !sameBits(vals[row*w+k], wv) {
						g, n := locate(ms, row)
						return fmt.Sprintf("%s%s row %d (generation %d, node %d) element %d = %v, the sequential reference gives %v", base, sp.name, row, g, n, k, vals[row*w+k], wv)
					}
				}
			}
		}
	}
	return ""
}

func locate(ms ModelSpec, row int) (int, int) {
	for g := range ms.Gens {
		if row < len(ms.Gens[g]) {
			return g, row
		}
		row -= len(ms.Gens[g])
	}
	return -1, -1
}

// every (model, generation, dataset) block written exactly once, at its batch offset
func checkWriteLog(c Case, f files) string {
	type key struct {
		path string
		off  uint
	}
	writes := map[key]int{}
	for _, call := range hdf5.Calls {
		if call.Op != "H5Dwrite" || (call.File != f.out && call.File != f.finalStates) {
			continue
		}
		if call.Offset == nil {
			continue // a whole-dataset write (e.g. an initial fill when the dataset is created) is not a generation block
		}
		writes[key{"/" + strings.Join(strings.FieldsFunc(call.Path, func(r rune) bool { return r == '/' }), "/"), call.Offset[0]}]++
		// block must stay inside the generation's rows
		_ = call.Block
	}
	for _, ms := range c.Models {
		wantOut := writeForRef(ms.Name, c.OutputsFor, c.NoOutputsFor, true)
		wantIn := writeForRef(ms.Name, c.InputsFor, c.NoInputsFor, len(ms.Gens[0]) == 0)
		split := contains(c.Split, ms.Name) // written by the writer sub-process, not here
		off := 0
		for g := range ms.Gens {
			n := len(ms.Gens[g])
			if n > 0 {
				for _, ds := range []struct {
					name string
					want bool
				}{{"outputs", wantOut}, {"inputs", wantIn}, {"states", true}} {
					k := key{"/MODELS/" + ms.Name + "/" + ds.name, uint(off)}
					got := writes[k]
					delete(writes, k)
					if split {
						if got != 0 {
							return fmt.Sprintf("generation %d of %s: %s written in-process although the model's results go to the writer sub-process", g, ms.Name, ds.name)
						}
						continue
					}
					if ds.want && got != 1 {
						return fmt.Sprintf("generation %d of %s: block %s at row %d written %d times, expected exactly once", g, ms.Name, ds.name, off, got)
					}
					if !ds.want && got != 0 {
						return fmt.Sprintf("generation %d of %s: block %s written although not selected", g, ms.Name, ds.name)
					}
				}
			}
			off += n
		}
	}
	for k, n := range writes {
		return fmt.Sprintf("unexpected write (%d times) to %s at row %d", n, k.path, k.off)
	}
	return ""
}

func label(c Case, r *pbt.Result) {
	multi := map[[3]int]int{}
	stored := false
	for _, l := range c.Links {
		multi[[3]int{l.DstModel, l.DstGen, l.DstNode*100 + l.DstVar}]++
		if c.Models[l.DstModel].HasInputs {
			stored = true
		}
	}
	several := false
	for _, n := range multi {
		if n > 1 {
			several = true
		}
	}
	if c.G >= 2 && len(c.Links) > 0 && (several || stored) {
		r.NonTrivial = true
	}
	if several {
		r.Label("several-links-into-one-input")
	}
	for _, ms := range c.Models {
		if tabled[ms.Name] {
			// longest table per generation vs over all nodes
			desc := simref.New(ms.Name).Description()
			all, short := 0, false
			var per []int
			for g := range ms.Gens {
				k := 0
				for _, n := range ms.Gens[g] {
					for _, x := range simref.Rows(desc, []simref.Cell{n.Cell}) {
						if x > k {
							k = x
						}
					}
				}
				per = append(per, k)
				if k > all {
					all = k
				}
			}
			for g, k := range per {
				if len(ms.Gens[g]) > 0 && k < all {
					short = true
				}
			}
			r.Label("table-parameter-model")
			if short {
				r.Label("table-parameter-model:generation-without-the-longest-table")
				r.NonTrivial = true
			}
		}
		if len(ms.Gens[0]) == 0 {
			r.Label("model-absent-from-generation-0")
		}
		if !ms.HasInputs {
			r.Label("model-without-stored-inputs")
		}
		for g := range ms.Gens {
			if len(ms.Gens[g]) == 0 {
				r.Label("empty-batch")
				break
			}
		}
	}
	if !c.OutputFile {
		r.Label("no-output-file")
	}
	if len(c.Split) > 0 {
		r.Label("split-output-writer-process")
	}
	if c.WriterDelayUs > 0 {
		r.Label("slow-writer")
	}
	if c.ReaderDelayUs > 0 {
		r.Label("slow-loads")
	}
	if len(c.OutputsFor)+len(c.NoOutputsFor)+len(c.InputsFor)+len(c.NoInputsFor) > 0 {
		r.Label("output-selection-flags")
	}
	r.Label(fmt.Sprintf("generations:%d", c.G))
}

func check(c Case) (r pbt.Result) {
	label(c, &r)
	f, err := runOnce(c, true)
	defer hdf5.Reset()
	if err != nil {
		r.Failf("INFRASTRUCTURE: writing the input file: %v", err)
		return
	}
	if !c.OutputFile {
		return // nothing observable is produced without an output file; the run must simply complete
	}
	if msg := compareWithReference(c, f, reference(c)); msg != "" {
		r.Failf("%s", msg)
		return
	}
	if msg := checkWriteLog(c, f); msg != "" {
		r.Failf("%s", msg)
	}
	return
}

func TestSimulationEqualsSequentialReference(t *testing.T) { pbt.Run(t, gen, check) }

// ---------------------------------------------------------------------------
// C05 (ow-sim half): the same graphs, several times each, under the race detector with a drawn
// GOMAXPROCS and drawn delays at the stand-in's read / write calls (no call log, no probe: nothing
// that would order the goroutines); every repetition must equal the sequential reference.

func genRace(t *rapid.T) Case {
	c := gen(t)
	c.OutputFile = true
	c.Repeat = rapid.IntRange(2, 3).Draw(t, "repeat")
	c.Procs = rapid.SampledFrom([]int{1, 2, 3, 4, 8, 16}).Draw(t, "procs")
	return c
}

func checkRace(c Case) (r pbt.Result) {
	label(c, &r)
	types, gens := 0, 0
	for _, ms := range c.Models {
		for g := range ms.Gens {
			if len(ms.Gens[g]) > 0 {
				types++
				break
			}
		}
	}
	for g := 0; g < c.G; g++ {
		for _, ms := range c.Models {
			if len(ms.Gens[g]) > 0 {
				gens++
				break
			}
		}
	}
	r.NonTrivial = types >= 2 && gens >= 2
	old := runtime.GOMAXPROCS(c.Procs)
	defer runtime.GOMAXPROCS(old)
	ref := reference(c)
	defer hdf5.Reset()
	for i := 0; i < c.Repeat; i++ {
		f, err := runOnce(c, false)
		if err != nil {
			r.Failf("INFRASTRUCTURE: %v", err)
			return
		}
		if msg := compareWithReference(c, f, ref); msg != "" {
			r.Failf("repetition %d with GOMAXPROCS=%d: %s", i, c.Procs, msg)
			return
		}
	}
	return
}

func TestGraphExecutionRaceFree(t *testing.T) { pbt.Run(t, genRace, checkRace) }
