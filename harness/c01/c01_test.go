package c01

import (
	"testing"

	"verif/harness/hist"
	"verif/harness/pbt"
)

func TestMain(m *testing.M) { pbt.Main(m, "C01") }

func TestSliceWriteHistories(t *testing.T) { pbt.Run(t, hist.Gen, hist.Check) }

// native coverage-guided fuzzing of the same histories (thorough tier)
func FuzzSliceWriteHistories(f *testing.F) { pbt.Fuzz(f, hist.Gen, hist.Check) }
