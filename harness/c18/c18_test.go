package c18

import (
	"fmt"
	"math"
	"sort"
	"testing"

	"github.com/flowmatters/openwater-core/data"
	"github.com/flowmatters/openwater-core/util/fn"
	"pgregory.net/rapid"
	"verif/harness/pbt"
)

func TestMain(m *testing.M) { pbt.Main(m, "C18") }

// ---------------------------------------------------------------------------
// FindRoot

// Fn is a serialisable continuous test function on [Min, Max].
//
//	pwl:   monotone piecewise linear through (Xs[i], Ys[i]) (Ys non-decreasing; flat pieces and kinks)
//	pow:   A*((x-Min)/(Max-Min))^P - B, monotone, smooth
//	exp:   A*(exp(P*(x-Min)/(Max-Min)) - 1) - B
//	wave:  non-monotone: linear trend from -B to +B plus A*sin(W*(x-Min)/(Max-Min)) with f(Min) < 0 < f(Max)
type Fn struct {
	Kind       string
	Min, Max   float64
	Xs, Ys     []float64 `json:",omitempty"`
	A, B, P, W float64   `json:",omitempty"`
}

func (f Fn) Eval(x float64) float64 {
	u := (x - f.Min) / (f.Max - f.Min)
	switch f.Kind {
	case "pwl":
		n := len(f.Xs)
		if x <= f.Xs[0] {
			return f.Ys[0]
		}
		if x >= f.Xs[n-1] {
			return f.Ys[n-1]
		}
		j := sort.SearchFloat64s(f.Xs, x)
		x0, x1, y0, y1 := f.Xs[j-1], f.Xs[j], f.Ys[j-1], f.Ys[j]
		return y0 + (x-x0)/(x1-x0)*(y1-y0)
	case "pow":
		return f.A*math.Pow(u, f.P) - f.B
	case "exp":
		return f.A*(math.Exp(f.P*u)-1) - f.B
	case "wave":
		return -f.B + 2*f.B*u + f.A*math.Sin(f.W*u)*u*(1-u)*4
	}
	panic("kind")
}

// Lipschitz constant (sup of the slope) where it is finite, else +Inf.
func (f Fn) Lipschitz() float64 {
	w := f.Max - f.Min
	switch f.Kind {
	case "pwl":
		l := 0.0
		for i := 1; i < len(f.Xs); i++ {
			if s := (f.Ys[i] - f.Ys[i-1]) / (f.Xs[i] - f.Xs[i-1]); s > l {
				l = s
			}
		}
		return l
	case "pow":
		if f.P < 1 {
			return math.Inf(1)
		}
		return f.A * f.P / w
	case "exp":
		return f.A * math.Abs(f.P) * math.Exp(math.Max(f.P, 0)) / w
	}
	return math.Inf(1)
}

func (f Fn) Deriv(x float64) float64 {
	h := (f.Max - f.Min) * 1e-7
	a, b := math.Max(f.Min, x-h), math.Min(f.Max, x+h)
	return (f.Eval(b) - f.Eval(a)) / (b - a)
}

type RootCase struct {
	F        Fn
	Guess    float64
	Tol      float64
	Conv     float64
	MaxIter  int
	Deriv    string // none exact wrong zero
	Monotone bool
	EndsOK   bool // both ends at least Tol away from zero (what every caller guarantees)
}

// zeroLevel: where between its end values the function crosses zero, as a fraction of its range: anywhere inside,
// exactly at an end (f(min) = 0 or f(max) = 0: still a bracket), or exactly in the middle (end values of equal
// size: the secant point is the midpoint).
func zeroLevel(t *rapid.T) float64 {
	switch rapid.IntRange(0, 9).Draw(t, "zeroKind") {
	case 0:
		return 0
	case 1:
		return 1
	case 2, 3:
		return 0.5
	}
	return rapid.Float64Range(0.02, 0.98).Draw(t, "zero")
}

func genRoot(t *rapid.T) RootCase {
	c := RootCase{}
	lo := rapid.Float64Range(-100, 100).Draw(t, "min")
	w := math.Exp(rapid.Float64Range(math.Log(1e-3), math.Log(1e4)).Draw(t, "width"))
	f := Fn{Min: lo, Max: lo + w}
	c.Tol = math.Exp(rapid.Float64Range(math.Log(1e-12), 0).Draw(t, "tol"))
	c.Monotone = rapid.IntRange(0, 3).Draw(t, "mono") > 0
	amp := math.Exp(rapid.Float64Range(math.Log(1e-3), math.Log(1e6)).Draw(t, "amp"))
	if c.Monotone {
		f.Kind = rapid.SampledFrom([]string{"pwl", "pwl", "pow", "exp"}).Draw(t, "kind")
	} else {
		f.Kind = "wave"
	}
	switch f.Kind {
	case "pwl":
		n := rapid.IntRange(2, 8).Draw(t, "knots")
		f.Xs = make([]float64, n)
		f.Ys = make([]float64, n)
		f.Xs[0], f.Xs[n-1] = f.Min, f.Max
		cuts := make([]float64, n-2)
		for i := range cuts {
			cuts[i] = rapid.Float64Range(0.001, 0.999).Draw(t, "cut")
		}
		sort.Float64s(cuts)
		for i := 1; i < n-1; i++ {
			f.Xs[i] = f.Min + cuts[i-1]*w
			if f.Xs[i] <= f.Xs[i-1] {
				f.Xs[i] = math.Nextafter(f.Xs[i-1], math.Inf(1))
			}
		}
		if n > 2 && f.Xs[n-2] >= f.Max {
			f.Xs[n-2] = math.Nextafter(f.Max, math.Inf(-1))
		}
		sort.Float64s(f.Xs)
		y := 0.0
		for i := 1; i < n; i++ {
			if rapid.IntRange(0, 3).Draw(t, "flat") > 0 {
				y += rapid.Float64Range(0, 1).Draw(t, "rise")
			}
			f.Ys[i] = y
		}
		if y == 0 {
			f.Ys[n-1], y = 1, 1
		}
		// scale to amplitude and shift so that a root is bracketed
		z := zeroLevel(t)
		for i := range f.Ys {
			f.Ys[i] = (f.Ys[i]/y - z) * amp
		}
	case "pow":
		f.P = rapid.Float64Range(0.3, 3).Draw(t, "p")
		f.A = amp
		f.B = amp * zeroLevel(t)
	case "exp":
		f.P = rapid.Float64Range(0.1, 6).Draw(t, "p")
		f.A = amp / (math.Exp(f.P) - 1)
		f.B = amp * zeroLevel(t)
	case "wave":
		f.B = amp
		f.A = amp * rapid.Float64Range(0.5, 5).Draw(t, "a")
		f.W = rapid.Float64Range(1, 30).Draw(t, "w")
	}
	if f.Kind == "pow" || f.Kind == "exp" {
		// a zero placed exactly at an end must not become a missing bracket by rounding
		for k := 0; k < 4 && f.Eval(f.Max) < 0; k++ {
			f.B += f.Eval(f.Max)
		}
		for k := 0; k < 4 && f.Eval(f.Min) > 0; k++ {
			f.B += f.Eval(f.Min)
		}
	}
	c.F = f
	c.EndsOK = math.Abs(f.Eval(f.Min)) >= c.Tol && math.Abs(f.Eval(f.Max)) >= c.Tol
	if !c.EndsOK && rapid.IntRange(0, 4).Draw(t, "keepWeak") > 0 {
		// prefer the class every caller produces: shrink the tolerance below both end values
		m := math.Min(math.Abs(f.Eval(f.Min)), math.Abs(f.Eval(f.Max)))
		if m > 0 {
			c.Tol = m * rapid.Float64Range(1e-9, 0.9).Draw(t, "tolfrac")
			c.EndsOK = true
		}
	}
	c.Guess = f.Min + w*rapid.Float64Range(0, 1).Draw(t, "guess")
	switch rapid.IntRange(0, 7).Draw(t, "guessEnd") {
	case 0, 1:
		c.Guess = rapid.SampledFrom([]float64{f.Min, f.Max}).Draw(t, "gend")
	case 2:
		// the first trial points themselves: the midpoint, the secant point
		c.Guess = f.Max - (f.Max-f.Min)*0.5
	case 3:
		if a, b := f.Eval(f.Min), f.Eval(f.Max); b != a {
			if g := f.Max - (f.Max-f.Min)*b/(b-a); g >= f.Min && g <= f.Max {
				c.Guess = g
			}
		}
	}
	c.MaxIter = rapid.IntRange(0, 60).Draw(t, "iters")
	c.Deriv = rapid.SampledFrom([]string{"none", "exact", "wrong", "zero"}).Draw(t, "deriv")
	L := f.Lipschitz()
	if !math.IsInf(L, 0) && L > 0 && rapid.Bool().Draw(t, "budget") {
		// a budget that suffices for interval halving, and a convergence limit that cannot stop it early
		need := int(math.Ceil(math.Log2(L*w/c.Tol))) + 1
		if need < 1 {
			need = 1
		}
		if need <= 60 {
			c.MaxIter = need + rapid.IntRange(0, 5).Draw(t, "extra")
		}
		c.Conv = c.Tol / (8 * L) * rapid.Float64Range(0, 1).Draw(t, "convfrac")
	} else {
		c.Conv = math.Exp(rapid.Float64Range(math.Log(1e-14), math.Log(1e-2)).Draw(t, "conv"))
	}
	return c
}

func checkRoot(c RootCase) (r pbt.Result) {
	f := c.F
	var pts []float64
	wrapped := func(x float64) float64 {
		pts = append(pts, x)
		return f.Eval(x)
	}
	var d func(float64) float64
	switch c.Deriv {
	case "exact":
		d = f.Deriv
	case "wrong":
		d = func(x float64) float64 { return -3*f.Deriv(x) + 1 }
	case "zero":
		d = func(float64) float64 { return 0 }
	}
	fmin, fmax := f.Eval(f.Min), f.Eval(f.Max)
	if !(fmin <= 0 && fmax >= 0) {
		r.Failf("generator: no bracket (f(min)=%v f(max)=%v)", fmin, fmax) // cannot happen by construction
		return
	}
	var x, delta float64
	perr := ""
	func() {
		defer func() {
			if e := recover(); e != nil {
				perr = fmt.Sprint(e)
			}
		}()
		x, delta = fn.FindRoot(wrapped, d, c.Guess, f.Min, f.Max, c.Tol, c.Conv, c.MaxIter)
	}()
	r.Label("fn:" + f.Kind)
	r.Label("deriv:" + c.Deriv)
	if !c.EndsOK {
		r.Label("end-within-tolerance")
	}
	if perr != "" {
		r.Failf("FindRoot panicked on a bracketed continuous function: %s", perr)
		return
	}
	for i, p := range pts {
		if math.IsNaN(p) || p < f.Min || p > f.Max {
			r.Failf("evaluation %d at %v lies outside the interval [%v, %v]", i, p, f.Min, f.Max)
			return
		}
	}
	if math.IsNaN(x) || x < f.Min || x > f.Max {
		r.Failf("returned point %v lies outside [%v, %v]", x, f.Min, f.Max)
		return
	}
	if fx := f.Eval(x); fx != delta && !(math.IsNaN(fx) && math.IsNaN(delta)) {
		r.Failf("returned value %v is not the function's value %v at the returned point %v", delta, fx, x)
		return
	}
	iters := (len(pts) - 3) / 2
	if iters >= 3 || !c.Monotone {
		r.NonTrivial = true
	}
	if c.Monotone && c.EndsOK && c.MaxIter >= 1 {
		best := math.Min(math.Abs(fmin), math.Abs(fmax))
		if math.Abs(delta) > best*(1+1e-12) { // the test functions are monotone up to rounding of their own interpolation
			r.Failf("returned |value| %v is larger than at the better end of the initial bracket (%v)", math.Abs(delta), best)
			return
		}
		L, w := f.Lipschitz(), f.Max-f.Min
		// the halving argument is about real numbers: it needs the tolerance to be resolvable in floating point,
		// i.e. well above the function's change over one ulp of x
		resolvable := c.Tol > 64*L*ulp(math.Max(math.Abs(f.Min), math.Abs(f.Max)))
		if !math.IsInf(L, 0) && L > 0 && 4*L*c.Conv < c.Tol && resolvable {
			need := int(math.Ceil(math.Log2(L*w/c.Tol))) + 1
			if need < 1 {
				need = 1
			}
			if c.MaxIter >= need {
				r.Label("budget-suffices")
				if !(math.Abs(delta) < c.Tol) {
					r.Failf("|value| %v not below the tolerance %v although %d iterations suffice for interval halving (Lipschitz %v, width %v, limit %d)", math.Abs(delta), c.Tol, need, L, w, c.MaxIter)
					return
				}
			}
		}
	}
	return
}

func TestFindRoot(t *testing.T) { pbt.Run(t, genRoot, checkRoot) }

// ---------------------------------------------------------------------------
// Piecewise

type PWCase struct {
	Xs, Ys []pbt.F
	Q      []pbt.F // query points
	Step   int     // the tables are handed over as stepped views of larger arrays when > 1
	// Block: both tables are contiguous views into ONE array, xs directly followed by ys and a further element (the
	// layout of a model's parameter column: the wrappers slice tables out of the parameter block)
	Block bool `json:",omitempty"`
}

func genPW(t *rapid.T) PWCase {
	n := rapid.IntRange(2, 12).Draw(t, "n")
	if rapid.IntRange(0, 9).Draw(t, "longTable") == 4 {
		// tables long enough for a search that switches strategy by size (sizes around powers of two)
		n = rapid.SampledFrom([]int{31, 32, 33, 63, 64, 65, 66, 100, 128, 129, 257, 366}).Draw(t, "nLong")
	}
	c := PWCase{Step: rapid.IntRange(1, 3).Draw(t, "step")}
	if rapid.IntRange(0, 2).Draw(t, "block") == 0 {
		c.Step, c.Block = 1, true
	}
	x := rapid.Float64Range(-1e3, 1e3).Draw(t, "x0")
	xs := make([]float64, n)
	for i := range xs {
		xs[i] = x
		gap := math.Exp(rapid.Float64Range(math.Log(1e-6), math.Log(1e3)).Draw(t, "gap"))
		nx := x + gap
		if nx <= x {
			nx = math.Nextafter(x, math.Inf(1))
		}
		x = nx
	}
	ys := make([]float64, n)
	for i := range ys {
		ys[i] = rapid.Float64Range(-1e6, 1e6).Draw(t, "y")
		if rapid.IntRange(0, 4).Draw(t, "rep") == 0 && i > 0 {
			ys[i] = ys[i-1]
		}
	}
	c.Xs, c.Ys = pbt.Fs(xs), pbt.Fs(ys)
	nq := rapid.IntRange(1, 12).Draw(t, "nq")
	for i := 0; i < nq; i++ {
		var q float64
		switch rapid.IntRange(0, 8).Draw(t, "qk") {
		case 7:
			q = xs[0] // the first knot
		case 8:
			q = xs[n-1] // the last knot
		case 0:
			q = xs[rapid.IntRange(0, n-1).Draw(t, "knot")]
		case 1:
			j := rapid.IntRange(1, n-1).Draw(t, "seg")
			q = xs[j-1] + (xs[j]-xs[j-1])*rapid.Float64Range(0, 1).Draw(t, "frac")
		case 2:
			q = rapid.SampledFrom([]float64{math.NaN(), math.Inf(1), math.Inf(-1)}).Draw(t, "special")
		case 3:
			q = math.Nextafter(xs[0], math.Inf(-1))
		case 4:
			q = math.Nextafter(xs[n-1], math.Inf(1))
		case 5:
			q = xs[0] - math.Exp(rapid.Float64Range(-20, 10).Draw(t, "below"))
		default:
			q = xs[n-1] + math.Exp(rapid.Float64Range(-20, 10).Draw(t, "above"))
		}
		c.Q = append(c.Q, pbt.F(q))
	}
	return c
}

func view(vals []float64, step int) data.ND1Float64 {
	if step == 1 {
		a := data.NewArray1DFloat64(len(vals))
		for i, v := range vals {
			a.Set1(i, v)
		}
		return a
	}
	big := data.NewArray1DFloat64(len(vals)*step + 1)
	for i := 0; i < big.Len1(); i++ {
		big.Set1(i, math.NaN()) // anything read outside the stepped view would poison the result
	}
	for i, v := range vals {
		big.Set1(1+i*step, v)
	}
	return big.Slice([]int{1}, []int{len(vals)}, []int{step}).(data.ND1Float64)
}

func ulp(x float64) float64 {
	x = math.Abs(x)
	return math.Nextafter(x, math.Inf(1)) - x
}

func checkPW(c PWCase) (r pbt.Result) {
	xs, ys := pbt.Floats(c.Xs), pbt.Floats(c.Ys)
	n := len(xs)
	xa, ya := view(xs, c.Step), view(ys, c.Step)
	if c.Step > 1 {
		r.Label("stepped-table-views")
	}
	var block data.ND1Float64
	var blockWant []float64
	if c.Block {
		r.Label("tables-in-one-block")
		blockWant = append(append(append([]float64{-7}, xs...), ys...), 12345)
		block = data.NewArray1DFloat64(len(blockWant))
		for i, v := range blockWant {
			block.Set1(i, v)
		}
		xa = block.Slice([]int{1}, []int{n}, nil).(data.ND1Float64)
		ya = block.Slice([]int{1 + n}, []int{n}, nil).(data.ND1Float64)
	}
	defer func() {
		// a lookup reads its tables: whatever surrounds them must be what it was
		if c.Block && r.Fail == "" {
			for i, v := range blockWant {
				if g := block.Get1(i); g != v {
					r.Failf("after %d lookups element %d of the array holding the tables is %v, it was %v (x table at 1..%d, y table behind it)", len(c.Q), i, g, v, n)
					return
				}
			}
		}
	}()
	for _, qf := range c.Q {
		q := float64(qf)
		var y float64
		var err error
		perr := ""
		func() {
			defer func() {
				if e := recover(); e != nil {
					perr = fmt.Sprint(e)
				}
			}()
			y, err = fn.Piecewise(q, xa, ya)
		}()
		if perr != "" {
			r.Failf("Piecewise(%v) panicked: %s", q, perr)
			return
		}
		outside := math.IsNaN(q) || q < xs[0] || q > xs[n-1]
		if outside {
			r.Label("query:outside-or-NaN")
			if err == nil {
				r.Failf("Piecewise(%v) outside the table [%v, %v] returned the number %v instead of an error", q, xs[0], xs[n-1], y)
				return
			}
			continue
		}
		if err != nil {
			r.Failf("Piecewise(%v) inside the table [%v, %v] returned an error: %v", q, xs[0], xs[n-1], err)
			return
		}
		j := sort.SearchFloat64s(xs, q) // first knot >= q
		if xs[j] == q {
			r.Label("query:at-knot")
			tol := 0.0
			if j > 0 {
				tol = 4 * ulp(math.Max(math.Abs(ys[j-1]), math.Abs(ys[j])))
			}
			if math.Abs(y-ys[j]) > tol {
				r.Failf("Piecewise at knot %d (x=%v) = %.17g, table value %.17g", j, q, y, ys[j])
				return
			}
			continue
		}
		r.Label("query:between-knots")
		r.NonTrivial = true
		x0, x1, y0, y1 := xs[j-1], xs[j], ys[j-1], ys[j]
		f := (q - x0) / (x1 - x0)
		want := y0*(1-f) + y1*f
		scale := math.Max(math.Abs(y0), math.Abs(y1))
		if math.Abs(y-want) > 1e-12*(1+scale) {
			r.Failf("Piecewise(%v) = %.17g, the linear interpolant between (%v,%v) and (%v,%v) is %.17g", q, y, x0, y0, x1, y1, want)
			return
		}
		lo, hi := math.Min(y0, y1), math.Max(y0, y1)
		if y < lo-4*ulp(scale) || y > hi+4*ulp(scale) {
			r.Failf("Piecewise(%v) = %.17g is not between the neighbouring table values %v and %v", q, y, y0, y1)
			return
		}
	}
	return
}

func TestPiecewise(t *testing.T) { pbt.Run(t, genPW, checkPW) }

func FuzzFindRoot(f *testing.F) { pbt.Fuzz(f, genRoot, checkRoot) }

func FuzzPiecewise(f *testing.F) { pbt.Fuzz(f, genPW, checkPW) }
