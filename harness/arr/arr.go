// Package arr gives the checks one type-erased handle on the repository's eight
// element types and two storage back-ends.  Values cross the interface as float64
// (the generators only use numbers exactly representable in every element type).
package arr

import (
	"encoding/binary"
	"fmt"
	"math"
	"syscall"
	"unsafe"

	"github.com/flowmatters/openwater-core/data"
	"github.com/flowmatters/openwater-core/data/cdata"
)

type num interface {
	~float64 | ~float32 | ~int32 | ~uint32 | ~int64 | ~uint64 | ~int | ~uint
}

// nd is the method set every generated ND<T> interface has, with S the interface itself.
type nd[T num, S any] interface {
	Len(axis int) int
	Shape() []int
	NDims() int
	NewIndex(val int) []int
	Get(loc []int) T
	Set(loc []int, val T)
	Slice(loc []int, dims []int, step []int) S
	Apply(loc []int, dim int, step int, vals []T)
	ApplySlice(loc []int, step []int, vals S)
	CopyFrom(other S)
	Contiguous() bool
	Unroll() []T
	Reshape(newShape []int) (S, error)
	MustReshape(newShape []int) S
	ReshapeFast(newShape []int) (S, error)
	Maximum() T
	Minimum() T
}

// View is the erased handle.
type View interface {
	Type() string
	Raw() interface{} // the underlying data.ND<T>
	Shape() []int
	NDims() int
	Len(ax int) int
	NewIndex(v int) []int
	Get(loc []int) float64
	Set(loc []int, v float64)
	Slice(loc, dims, step []int) View
	Apply(loc []int, dim, step int, vals []float64)
	ApplySlice(loc, step []int, vals View)
	CopyFrom(o View)
	Contiguous() bool
	Unroll() []float64
	// UnrollPoke unrolls, writes v at position i of the returned slice, and returns nothing:
	// whether the write lands in the storage tells aliasing from copying.
	UnrollPoke(i int, v float64)
	Reshape(shape []int) (View, error)
	MustReshape(shape []int) View
	ReshapeFast(shape []int) (View, error)
	Maximum() float64
	Minimum() float64
	// rank-specific accessors; ok=false when the concrete type lacks the interface
	Get1(i int) float64
	Set1(i int, v float64)
	Apply1(loc, step int, vals []float64)
	Get2(i, j int) float64
	Set2(i, j int, v float64)
	Get3(i, j, k int) float64
	Set3(i, j, k int, v float64)
	Len1() int
	Len2() int
	Len3() int
	// whole-array helpers (6 of the 8 types have them)
	HasOps() bool
	ScaleInto(dest View, k float64)       // dest = this * k
	AddInto(dest View)                    // dest += this
	ApplyFuncInto(dest View, add float64) // dest = this + add
}

type ops[T num, S any] struct {
	scale func(dest, src S, k T)
	addTo func(dest, src S)
	apply func(dest, src S, fn func(T) T)
}

type wrap[T num, S nd[T, S]] struct {
	a   S
	typ string
	op  *ops[T, S]
}

func conv[T num](v []float64) []T {
	r := make([]T, len(v))
	for i, x := range v {
		r[i] = T(x)
	}
	return r
}

func (w *wrap[T, S]) mk(a S) View                      { return &wrap[T, S]{a: a, typ: w.typ, op: w.op} }
func (w *wrap[T, S]) un(o View) S                      { return o.(*wrap[T, S]).a }
func (w *wrap[T, S]) Type() string                     { return w.typ }
func (w *wrap[T, S]) Raw() interface{}                 { return w.a }
func (w *wrap[T, S]) Shape() []int                     { return w.a.Shape() }
func (w *wrap[T, S]) NDims() int                       { return w.a.NDims() }
func (w *wrap[T, S]) Len(ax int) int                   { return w.a.Len(ax) }
func (w *wrap[T, S]) NewIndex(v int) []int             { return w.a.NewIndex(v) }
func (w *wrap[T, S]) Get(loc []int) float64            { return float64(w.a.Get(loc)) }
func (w *wrap[T, S]) Set(loc []int, v float64)         { w.a.Set(loc, T(v)) }
func (w *wrap[T, S]) Slice(loc, dims, step []int) View { return w.mk(w.a.Slice(loc, dims, step)) }
func (w *wrap[T, S]) Apply(loc []int, dim, step int, vals []float64) {
	w.a.Apply(loc, dim, step, conv[T](vals))
}
func (w *wrap[T, S]) ApplySlice(loc, step []int, vals View) { w.a.ApplySlice(loc, step, w.un(vals)) }
func (w *wrap[T, S]) CopyFrom(o View)                       { w.a.CopyFrom(w.un(o)) }
func (w *wrap[T, S]) Contiguous() bool                      { return w.a.Contiguous() }
func (w *wrap[T, S]) Unroll() []float64 {
	u := w.a.Unroll()
	r := make([]float64, len(u))
	for i, x := range u {
		r[i] = float64(x)
	}
	return r
}
func (w *wrap[T, S]) UnrollPoke(i int, v float64) { w.a.Unroll()[i] = T(v) }
func (w *wrap[T, S]) Reshape(shape []int) (View, error) {
	r, err := w.a.Reshape(shape)
	if err != nil {
		return nil, err
	}
	return w.mk(r), nil
}
func (w *wrap[T, S]) MustReshape(shape []int) View { return w.mk(w.a.MustReshape(shape)) }
func (w *wrap[T, S]) ReshapeFast(shape []int) (View, error) {
	r, err := w.a.ReshapeFast(shape)
	if err != nil {
		return nil, err
	}
	return w.mk(r), nil
}
func (w *wrap[T, S]) Maximum() float64 { return float64(w.a.Maximum()) }
func (w *wrap[T, S]) Minimum() float64 { return float64(w.a.Minimum()) }

type r1[T num] interface {
	Len1() int
	Get1(int) T
	Set1(int, T)
	Apply1(int, int, []T)
}
type r2[T num] interface {
	Len2() int
	Get2(int, int) T
	Set2(int, int, T)
}
type r3[T num] interface {
	Len3() int
	Get3(int, int, int) T
	Set3(int, int, int, T)
}

func (w *wrap[T, S]) Get1(i int) float64    { return float64(any(w.a).(r1[T]).Get1(i)) }
func (w *wrap[T, S]) Set1(i int, v float64) { any(w.a).(r1[T]).Set1(i, T(v)) }
func (w *wrap[T, S]) Apply1(loc, step int, vals []float64) {
	any(w.a).(r1[T]).Apply1(loc, step, conv[T](vals))
}
func (w *wrap[T, S]) Get2(i, j int) float64          { return float64(any(w.a).(r2[T]).Get2(i, j)) }
func (w *wrap[T, S]) Set2(i, j int, v float64)       { any(w.a).(r2[T]).Set2(i, j, T(v)) }
func (w *wrap[T, S]) Get3(i, j, k int) float64       { return float64(any(w.a).(r3[T]).Get3(i, j, k)) }
func (w *wrap[T, S]) Set3(i, j, k int, v float64)    { any(w.a).(r3[T]).Set3(i, j, k, T(v)) }
func (w *wrap[T, S]) Len1() int                      { return any(w.a).(r1[T]).Len1() }
func (w *wrap[T, S]) Len2() int                      { return any(w.a).(r2[T]).Len2() }
func (w *wrap[T, S]) Len3() int                      { return any(w.a).(r3[T]).Len3() }
func (w *wrap[T, S]) HasOps() bool                   { return w.op != nil }
func (w *wrap[T, S]) ScaleInto(dest View, k float64) { w.op.scale(w.un(dest), w.a, T(k)) }
func (w *wrap[T, S]) AddInto(dest View)              { w.op.addTo(w.un(dest), w.a) }
func (w *wrap[T, S]) ApplyFuncInto(dest View, add float64) {
	a := T(add)
	w.op.apply(w.un(dest), w.a, func(v T) T { return v + a })
}

// Types in generation order.
var Types = []string{"float64", "float32", "int32", "uint32", "int64", "uint64", "int", "uint"}

// CSize is the element size of the C type the C back-end uses for each Go type.
var CSize = map[string]int{"float64": 8, "float32": 4, "int32": 4, "uint32": 4, "int64": 8, "uint64": 8, "int": 4, "uint": 4}

// IsFloat tells whether fractional values are allowed.
func IsFloat(t string) bool { return t == "float64" || t == "float32" }

// Root is an array over storage the harness can inspect directly.
type Root struct {
	View
	Typ  string
	C    bool
	n    int
	gos  interface{} // []T for Go-backed roots
	cmem *CMem
}

// Storage reads the raw storage (independently of the array code).
func (r *Root) Storage() []float64 {
	out := make([]float64, r.n)
	if r.C {
		for i := range out {
			out[i] = r.cmem.read(r.Typ, i)
		}
		return out
	}
	switch s := r.gos.(type) {
	case []float64:
		copy(out, s)
	case []float32:
		for i, v := range s {
			out[i] = float64(v)
		}
	case []int32:
		for i, v := range s {
			out[i] = float64(v)
		}
	case []uint32:
		for i, v := range s {
			out[i] = float64(v)
		}
	case []int64:
		for i, v := range s {
			out[i] = float64(v)
		}
	case []uint64:
		for i, v := range s {
			out[i] = float64(v)
		}
	case []int:
		for i, v := range s {
			out[i] = float64(v)
		}
	case []uint:
		for i, v := range s {
			out[i] = float64(v)
		}
	}
	return out
}

// Check verifies canaries of C memory (nil for Go roots); Free releases it.
func (r *Root) Check() error {
	if r.cmem != nil {
		return r.cmem.check()
	}
	return nil
}
func (r *Root) Free() {
	if r.cmem != nil {
		r.cmem.free()
		r.cmem = nil
	}
}

func mkGo[T num, S nd[T, S]](typ string, init []float64, dims []int, from func([]T, []int) S, op *ops[T, S]) *Root {
	st := conv[T](init)
	return &Root{View: &wrap[T, S]{a: from(st, dims), typ: typ, op: op}, Typ: typ, n: len(init), gos: st}
}

func mkC[T num, S nd[T, S]](typ string, init []float64, dims []int, guard int, from func(unsafe.Pointer, []int) S, op *ops[T, S]) *Root {
	m := newCMem(len(init)*CSize[typ], guard)
	for i, v := range init {
		m.write(typ, i, v)
	}
	return &Root{View: &wrap[T, S]{a: from(m.ptr(), dims), typ: typ, op: op}, Typ: typ, C: true, n: len(init), cmem: m}
}

var (
	opF64 = &ops[float64, data.NDFloat64]{data.ScaleFloat64Array, data.AddToFloat64Array, data.ApplyFunc1Float64}
	opF32 = &ops[float32, data.NDFloat32]{data.ScaleFloat32Array, data.AddToFloat32Array, data.ApplyFunc1Float32}
	opI32 = &ops[int32, data.NDInt32]{data.ScaleInt32Array, data.AddToInt32Array, data.ApplyFunc1Int32}
	opU32 = &ops[uint32, data.NDUint32]{data.ScaleUint32Array, data.AddToUint32Array, data.ApplyFunc1Uint32}
	opI64 = &ops[int64, data.NDInt64]{data.ScaleInt64Array, data.AddToInt64Array, data.ApplyFunc1Int64}
	opU64 = &ops[uint64, data.NDUint64]{data.ScaleUint64Array, data.AddToUint64Array, data.ApplyFunc1Uint64}
)

// NewRoot builds a root array of the given element type over storage initialised with init.
// guard: 0 = C memory with canaries only, 1 = end of buffer flush against a PROT_NONE page,
// 2 = start of buffer flush against one.
func NewRoot(typ string, c bool, init []float64, dims []int, guard int) *Root {
	d := append([]int(nil), dims...)
	if !c {
		switch typ {
		case "float64":
			return mkGo(typ, init, d, data.ArrayFromSliceFloat64, opF64)
		case "float32":
			return mkGo(typ, init, d, data.ArrayFromSliceFloat32, opF32)
		case "int32":
			return mkGo(typ, init, d, data.ArrayFromSliceInt32, opI32)
		case "uint32":
			return mkGo(typ, init, d, data.ArrayFromSliceUint32, opU32)
		case "int64":
			return mkGo(typ, init, d, data.ArrayFromSliceInt64, opI64)
		case "uint64":
			return mkGo(typ, init, d, data.ArrayFromSliceUint64, opU64)
		case "int":
			return mkGo[int, data.NDInt](typ, init, d, data.ArrayFromSliceInt, nil)
		case "uint":
			return mkGo[uint, data.NDUint](typ, init, d, data.ArrayFromSliceUint, nil)
		}
	} else {
		switch typ {
		case "float64":
			return mkC(typ, init, d, guard, cdata.NewFloat64CArray, opF64)
		case "float32":
			return mkC(typ, init, d, guard, cdata.NewFloat32CArray, opF32)
		case "int32":
			return mkC(typ, init, d, guard, cdata.NewInt32CArray, opI32)
		case "uint32":
			return mkC(typ, init, d, guard, cdata.NewUint32CArray, opU32)
		case "int64":
			return mkC(typ, init, d, guard, cdata.NewInt64CArray, opI64)
		case "uint64":
			return mkC(typ, init, d, guard, cdata.NewUint64CArray, opU64)
		case "int":
			return mkC[int, data.NDInt](typ, init, d, guard, cdata.NewIntCArray, nil)
		case "uint":
			return mkC[uint, data.NDUint](typ, init, d, guard, cdata.NewUintCArray, nil)
		}
	}
	panic("bad type " + typ)
}

// CMem is a caller-owned C buffer outside the Go heap: an anonymous mapping with
// canary bytes on both sides of the payload and, optionally, the payload flush
// against an inaccessible page so that any out-of-buffer access faults.
type CMem struct {
	mapping []byte
	off     int // payload offset in mapping
	size    int
	canLo   int // canary region [canLo, off) and [off+size, canHi)
	canHi   int
}

const page = 4096
const canary = 0xA5

func newCMem(size, guard int) *CMem {
	if size == 0 {
		size = 8
	}
	payloadPages := (size + 64 + page - 1) / page
	total := (payloadPages + 2) * page
	m, err := syscall.Mmap(-1, 0, total, syscall.PROT_READ|syscall.PROT_WRITE, syscall.MAP_ANON|syscall.MAP_PRIVATE)
	if err != nil {
		panic(fmt.Sprintf("mmap: %v", err))
	}
	for i := range m {
		m[i] = canary
	}
	c := &CMem{mapping: m, size: size}
	lo, hi := page, (payloadPages+1)*page // usable region
	switch guard {
	case 1: // end flush against the upper guard page
		c.off = hi - size
		c.canLo, c.canHi = lo, hi
	case 2: // start flush against the lower guard page
		c.off = lo
		c.canLo, c.canHi = lo, hi
	default:
		c.off = lo + 32
		c.canLo, c.canHi = lo, hi
	}
	if guard != 0 {
		if err := syscall.Mprotect(m[:page], syscall.PROT_NONE); err != nil {
			panic(err)
		}
		if err := syscall.Mprotect(m[hi:], syscall.PROT_NONE); err != nil {
			panic(err)
		}
	}
	for i := 0; i < size; i++ {
		m[c.off+i] = 0
	}
	return c
}

func (c *CMem) ptr() unsafe.Pointer { return unsafe.Pointer(&c.mapping[c.off]) }

func (c *CMem) check() error {
	for i := c.canLo; i < c.off; i++ {
		if c.mapping[i] != canary {
			return fmt.Errorf("write before the caller's buffer (byte %d below its start)", c.off-i)
		}
	}
	for i := c.off + c.size; i < c.canHi; i++ {
		if c.mapping[i] != canary {
			return fmt.Errorf("write past the caller's buffer (byte %d after its end)", i-(c.off+c.size))
		}
	}
	return nil
}

func (c *CMem) free() {
	syscall.Mprotect(c.mapping, syscall.PROT_READ|syscall.PROT_WRITE)
	syscall.Munmap(c.mapping)
	c.mapping = nil
}

func (c *CMem) read(typ string, i int) float64 {
	b := c.mapping[c.off:]
	switch typ {
	case "float64":
		return math.Float64frombits(binary.LittleEndian.Uint64(b[8*i:]))
	case "float32":
		return float64(math.Float32frombits(binary.LittleEndian.Uint32(b[4*i:])))
	case "int32", "int":
		return float64(int32(binary.LittleEndian.Uint32(b[4*i:])))
	case "uint32", "uint":
		return float64(binary.LittleEndian.Uint32(b[4*i:]))
	case "int64":
		return float64(int64(binary.LittleEndian.Uint64(b[8*i:])))
	case "uint64":
		return float64(binary.LittleEndian.Uint64(b[8*i:]))
	}
	panic(typ)
}

func (c *CMem) write(typ string, i int, v float64) {
	b := c.mapping[c.off:]
	switch typ {
	case "float64":
		binary.LittleEndian.PutUint64(b[8*i:], math.Float64bits(v))
	case "float32":
		binary.LittleEndian.PutUint32(b[4*i:], math.Float32bits(float32(v)))
	case "int32", "int":
		binary.LittleEndian.PutUint32(b[4*i:], uint32(int32(v)))
	case "uint32", "uint":
		binary.LittleEndian.PutUint32(b[4*i:], uint32(v))
	case "int64":
		binary.LittleEndian.PutUint64(b[8*i:], uint64(int64(v)))
	case "uint64":
		binary.LittleEndian.PutUint64(b[8*i:], uint64(v))
	}
}

// Wrap puts a data.ND<T> value (e.g. one returned by an H5Ref Load) behind the erased handle.
func Wrap(typ string, raw interface{}) View {
	switch typ {
	case "float64":
		return &wrap[float64, data.NDFloat64]{a: raw.(data.NDFloat64), typ: typ, op: opF64}
	case "float32":
		return &wrap[float32, data.NDFloat32]{a: raw.(data.NDFloat32), typ: typ, op: opF32}
	case "int32":
		return &wrap[int32, data.NDInt32]{a: raw.(data.NDInt32), typ: typ, op: opI32}
	case "uint32":
		return &wrap[uint32, data.NDUint32]{a: raw.(data.NDUint32), typ: typ, op: opU32}
	case "int64":
		return &wrap[int64, data.NDInt64]{a: raw.(data.NDInt64), typ: typ, op: opI64}
	case "uint64":
		return &wrap[uint64, data.NDUint64]{a: raw.(data.NDUint64), typ: typ, op: opU64}
	case "int":
		return &wrap[int, data.NDInt]{a: raw.(data.NDInt), typ: typ}
	case "uint":
		return &wrap[uint, data.NDUint]{a: raw.(data.NDUint), typ: typ}
	}
	panic("bad type " + typ)
}
