// Package hdf5 is a pure-Go stand-in for gonum.org/v1/hdf5 (cgo binding of libhdf5,
// which is not installed in this sandbox).  It has the same import path and the API
// subset openwater-core uses, with signatures copied from the binding.  Semantics
// modelled (see /verif/DESIGN.md 2.3):
//
//   - a file is a tree of groups and datasets; datasets hold raw little-endian bytes
//     of an HDF5 native type, default fill 0;
//   - Go kind -> native type as in the binding's NewDataTypeFromType (h5t_types.go):
//     Go int/uint map to H5T_NATIVE_INT/UINT, i.e. 4 bytes;
//   - Read/Write/ReadSubset/WriteSubset transfer raw memory in the dataset's stored
//     type (the binding passes the file type as the memory type): no numeric
//     conversion. A destination buffer smaller than the transfer would be a memory
//     overrun in the real library; here it is a returned error;
//   - hyperslab selection (offset/stride/count/block), row-major selection order,
//     element-count match between memory and file selections, out-of-extent or
//     zero stride/count -> error;
//   - deflate on a contiguous (unchunked) dataset is refused, as libhdf5 does;
//   - files are backed by a marker file on disk so os.Stat / os.Remove behave.
//
// Extras for the checks: Hook (called at every entry that reaches "the library"),
// a call log, and helpers to create string datasets / inspect raw bytes.
// The package state is deliberately NOT synchronised: like libhdf5 (non-threadsafe
// build) it relies on the caller's lock, so the race detector sees a missing lock.
package hdf5

import (
	"bytes"
	"encoding/binary"
	"encoding/gob"
	"errors"
	"fmt"
	"os"
	"reflect"
	"strings"
	"sync"
	"unsafe"
)

const (
	F_ACC_RDONLY int = 0x0000
	F_ACC_RDWR   int = 0x0001
	F_ACC_TRUNC  int = 0x0002
	F_ACC_EXCL   int = 0x0004
)

type GType int

const (
	H5G_UNKNOWN GType = -1
	H5G_GROUP   GType = 0
	H5G_DATASET GType = 1
	H5G_TYPE    GType = 2
	H5G_LINK    GType = 3
)

const DefaultCompression = 6

type PropType int

const (
	P_DATASET_CREATE PropType = 1
	P_DATASET_ACCESS PropType = 2
)

// Hook, when set, is called on every operation that would enter libhdf5.
// mutating tells whether the operation changes file content.
var Hook func(op string, mutating bool)

// LogCalls switches the call log on; Calls holds it.
var LogCalls bool
var Calls []Call
var logMu sync.Mutex // only taken when LogCalls is on (never in race-detector stages: it would order the callers)

type Call struct {
	Op       string
	File     string
	Path     string
	Offset   []uint `json:",omitempty"`
	Block    []uint `json:",omitempty"`
	Count    []uint `json:",omitempty"`
	Mutating bool
}

func enter(op string, mutating bool, file, path string, sel *Dataspace) {
	if Hook != nil {
		Hook(op, mutating)
	}
	if LogCalls {
		logMu.Lock()
		defer logMu.Unlock()
		c := Call{Op: op, File: file, Path: path, Mutating: mutating}
		if sel != nil && sel.selected {
			c.Offset, c.Block, c.Count = sel.offset, sel.block, sel.count
		}
		Calls = append(Calls, c)
	}
}

func DisplayErrors(on bool) error { return nil }

// ---------------------------------------------------------------------------
// storage

type typeClass int

const (
	classInteger typeClass = iota
	classFloat
	classString
)

type dtype struct {
	class  typeClass
	size   uint
	signed bool
}

type node struct {
	group    bool
	children map[string]*node
	order    []string
	// dataset
	typ     dtype
	dims    []uint
	data    []byte
	chunked bool
}

type fileData struct {
	name string
	root *node
	// marker file size / mtime when this process last saved or loaded it (Persist)
	stampSize, stampTime int64
}

var files = map[string]*fileData{}

// Persist makes files survive the process: a read-write handle's Close serialises the whole file
// into its marker file, and a file that is not in memory (or whose marker changed on disk since
// this process last synchronised it) is loaded from there. Off by default (in-memory only); used
// for ow-sim's split-output writer, which is a separate process.
var Persist = os.Getenv("FAKEHDF5_PERSIST") == "1"

type pnode struct {
	Group    bool
	Names    []string
	Children []pnode
	Class    int
	Size     uint
	Signed   bool
	Dims     []uint
	Data     []byte
}

func toP(n *node) pnode {
	p := pnode{Group: n.group, Class: int(n.typ.class), Size: n.typ.size, Signed: n.typ.signed, Dims: n.dims, Data: n.data}
	for _, name := range n.order {
		p.Names = append(p.Names, name)
		p.Children = append(p.Children, toP(n.children[name]))
	}
	return p
}

func fromP(p pnode) *node {
	n := &node{group: p.Group, typ: dtype{typeClass(p.Class), p.Size, p.Signed}, dims: p.Dims, data: p.Data}
	if p.Group {
		n.children = map[string]*node{}
		for i, name := range p.Names {
			n.order = append(n.order, name)
			n.children[name] = fromP(p.Children[i])
		}
	}
	return n
}

const persistMagic = "fake-hdf5 gob\n"

func (fd *fileData) save() {
	var b bytes.Buffer
	b.WriteString(persistMagic)
	if err := gob.NewEncoder(&b).Encode(toP(fd.root)); err != nil {
		return
	}
	tmp := fd.name + ".tmp"
	if os.WriteFile(tmp, b.Bytes(), 0o644) == nil {
		os.Rename(tmp, fd.name)
	}
	if st, err := os.Stat(fd.name); err == nil {
		fd.stampSize, fd.stampTime = st.Size(), st.ModTime().UnixNano()
	}
}

func loadPersisted(name string) *fileData {
	b, err := os.ReadFile(name)
	if err != nil || !bytes.HasPrefix(b, []byte(persistMagic)) {
		return nil
	}
	var p pnode
	if gob.NewDecoder(bytes.NewReader(b[len(persistMagic):])).Decode(&p) != nil {
		return nil
	}
	fd := &fileData{name: name, root: fromP(p)}
	if st, err := os.Stat(name); err == nil {
		fd.stampSize, fd.stampTime = st.Size(), st.ModTime().UnixNano()
	}
	return fd
}

// Reset forgets every file (and removes the marker files).
func Reset() {
	for n := range files {
		os.Remove(n)
	}
	files = map[string]*fileData{}
	Calls = nil
}

// live returns the file's content, or nil when it was never created or its marker file has been
// removed behind the stand-in's back (os.Remove by the code under test).
func live(name string) *fileData {
	fd := files[name]
	st, err := os.Stat(name)
	if err != nil {
		delete(files, name)
		return nil
	}
	if Persist && (fd == nil || st.Size() != fd.stampSize || st.ModTime().UnixNano() != fd.stampTime) {
		if l := loadPersisted(name); l != nil {
			files[name] = l
			return l
		}
	}
	return fd
}

func newGroup() *node { return &node{group: true, children: map[string]*node{}} }

func split(path string) []string {
	var parts []string
	for _, p := range strings.Split(path, "/") {
		if p != "" && p != "." {
			parts = append(parts, p)
		}
	}
	return parts
}

func (n *node) lookup(path string) *node {
	cur := n
	for _, p := range split(path) {
		if cur == nil || !cur.group {
			return nil
		}
		cur = cur.children[p]
	}
	return cur
}

// ---------------------------------------------------------------------------
// File / Group

type CommonFG struct {
	file *fileData
	n    *node
	path string
	rw   bool
}

type File struct{ CommonFG }
type Group struct{ CommonFG }

func CreateFile(name string, flags int) (*File, error) {
	enter("H5Fcreate", true, name, "", nil)
	if flags&F_ACC_EXCL != 0 {
		if _, err := os.Stat(name); err == nil {
			return nil, errors.New("hdf5: file exists")
		}
	}
	if err := os.WriteFile(name, []byte("fake-hdf5 marker\n"), 0o644); err != nil {
		return nil, fmt.Errorf("hdf5: cannot create %s: %v", name, err)
	}
	fd := &fileData{name: name, root: newGroup()}
	files[name] = fd
	return &File{CommonFG{file: fd, n: fd.root, path: "/", rw: true}}, nil
}

func OpenFile(name string, flags int) (*File, error) {
	enter("H5Fopen", false, name, "", nil)
	fd := live(name)
	if fd == nil {
		return nil, fmt.Errorf("hdf5: unable to open file %q", name)
	}
	return &File{CommonFG{file: fd, n: fd.root, path: "/", rw: flags&F_ACC_RDWR != 0}}, nil
}

func (f *File) Close() error {
	if Persist && f.rw {
		f.file.save()
	}
	return nil
}
func (f *File) FileName() string { return f.file.name }
func (g *Group) Close() error    { return nil }

func (g *CommonFG) CreateGroup(name string) (*Group, error) {
	enter("H5Gcreate", true, g.file.name, g.path+"/"+name, nil)
	if !g.rw {
		return nil, errors.New("hdf5: file is read-only")
	}
	parts := split(name)
	if len(parts) != 1 {
		return nil, errors.New("hdf5: CreateGroup: intermediate groups are not created")
	}
	if _, ok := g.n.children[parts[0]]; ok {
		return nil, fmt.Errorf("hdf5: name %q already exists", name)
	}
	ng := newGroup()
	g.n.children[parts[0]] = ng
	g.n.order = append(g.n.order, parts[0])
	return &Group{CommonFG{file: g.file, n: ng, path: g.path + "/" + parts[0], rw: g.rw}}, nil
}

func (g *CommonFG) OpenGroup(name string) (*Group, error) {
	enter("H5Gopen", false, g.file.name, g.path+"/"+name, nil)
	n := g.n.lookup(name)
	if n == nil || !n.group {
		return nil, fmt.Errorf("hdf5: group %q not found", name)
	}
	return &Group{CommonFG{file: g.file, n: n, path: g.path + "/" + name, rw: g.rw}}, nil
}

func (g *CommonFG) NumObjects() (uint, error) {
	enter("H5Gget_num_objs", false, g.file.name, g.path, nil)
	return uint(len(g.n.order)), nil
}

func (g *CommonFG) ObjectNameByIndex(idx uint) (string, error) {
	enter("H5Gget_objname_by_idx", false, g.file.name, g.path, nil)
	if int(idx) >= len(g.n.order) {
		return "", errors.New("hdf5: index out of range")
	}
	return g.n.order[idx], nil
}

func (g *CommonFG) ObjectTypeByIndex(idx uint) (GType, error) {
	enter("H5Gget_objtype_by_idx", false, g.file.name, g.path, nil)
	if int(idx) >= len(g.n.order) {
		return H5G_UNKNOWN, errors.New("hdf5: index out of range")
	}
	if g.n.children[g.n.order[idx]].group {
		return H5G_GROUP, nil
	}
	return H5G_DATASET, nil
}

func (g *CommonFG) LinkExists(name string) bool {
	enter("H5Lexists", false, g.file.name, g.path+"/"+name, nil)
	return g.n.lookup(name) != nil
}

// ---------------------------------------------------------------------------
// Datatype / Dataspace / PropList

type Datatype struct{ t dtype }

func (t *Datatype) Close() error { return nil }
func (t *Datatype) Size() uint   { return t.t.size }
func (t *Datatype) GoType() reflect.Type {
	switch t.t.class {
	case classInteger:
		return reflect.TypeOf(int(0))
	case classFloat:
		return reflect.TypeOf(float64(0))
	case classString:
		return reflect.TypeOf("")
	}
	return nil
}

// NewDataTypeFromType: the binding's table (h5t_types.go), numeric kinds only.
func NewDataTypeFromType(t reflect.Type) (*Datatype, error) {
	switch t.Kind() {
	case reflect.Int:
		return &Datatype{dtype{classInteger, 4, true}}, nil // H5T_NATIVE_INT
	case reflect.Int8:
		return &Datatype{dtype{classInteger, 1, true}}, nil
	case reflect.Int16:
		return &Datatype{dtype{classInteger, 2, true}}, nil
	case reflect.Int32:
		return &Datatype{dtype{classInteger, 4, true}}, nil
	case reflect.Int64:
		return &Datatype{dtype{classInteger, 8, true}}, nil
	case reflect.Uint:
		return &Datatype{dtype{classInteger, 4, false}}, nil // H5T_NATIVE_UINT
	case reflect.Uint8:
		return &Datatype{dtype{classInteger, 1, false}}, nil
	case reflect.Uint16:
		return &Datatype{dtype{classInteger, 2, false}}, nil
	case reflect.Uint32:
		return &Datatype{dtype{classInteger, 4, false}}, nil
	case reflect.Uint64:
		return &Datatype{dtype{classInteger, 8, false}}, nil
	case reflect.Float32:
		return &Datatype{dtype{classFloat, 4, true}}, nil
	case reflect.Float64:
		return &Datatype{dtype{classFloat, 8, true}}, nil
	}
	return nil, fmt.Errorf("hdf5: unsupported kind %v in the stand-in", t.Kind())
}

func NewDatatypeFromValue(v interface{}) (*Datatype, error) {
	return NewDataTypeFromType(reflect.TypeOf(v))
}

type Dataspace struct {
	dims     []uint
	selected bool
	offset   []uint
	stride   []uint
	count    []uint
	block    []uint
	selErr   error
	none     bool
}

func CreateSimpleDataspace(dims, maxDims []uint) (*Dataspace, error) {
	if len(dims) == 0 {
		return nil, errors.New("hdf5: rank 0 simple dataspace")
	}
	return &Dataspace{dims: append([]uint(nil), dims...)}, nil
}

func (s *Dataspace) Close() error { return nil }

func (s *Dataspace) SimpleExtentDims() (dims, maxdims []uint, err error) {
	return append([]uint(nil), s.dims...), append([]uint(nil), s.dims...), nil
}

func (s *Dataspace) SimpleExtentNDims() int { return len(s.dims) }

func (s *Dataspace) SelectHyperslab(offset, stride, count, block []uint) error {
	rank := len(offset)
	if rank != len(s.dims) {
		return errors.New("size of offset does not match extent")
	}
	s.selected = true
	s.offset = append([]uint(nil), offset...)
	s.count = append([]uint(nil), count...)
	s.stride = make([]uint, rank)
	s.block = make([]uint, rank)
	for i := 0; i < rank; i++ {
		s.stride[i], s.block[i] = 1, 1
		if stride != nil {
			s.stride[i] = stride[i]
		}
		if block != nil {
			s.block[i] = block[i]
		}
		if s.stride[i] == 0 {
			return errors.New("hdf5: H5Sselect_hyperslab: invalid stride 0")
		}
		if s.count[i] == 0 || s.block[i] == 0 {
			// libhdf5 (H5Shyper.c): a zero-sized hyperslab selects nothing and succeeds
			s.none = true
		}
		if s.count[i] > 1 && s.block[i] > s.stride[i] {
			return errors.New("hdf5: H5Sselect_hyperslab: hyperslab blocks overlap")
		}
	}
	return nil
}

// selection returns the linear element offsets selected, in row-major selection order.
func (s *Dataspace) selection() ([]int, error) {
	rank := len(s.dims)
	if !s.selected {
		n := 1
		for _, d := range s.dims {
			n *= int(d)
		}
		r := make([]int, n)
		for i := range r {
			r[i] = i
		}
		return r, nil
	}
	if s.none {
		return nil, nil
	}
	per := make([][]int, rank)
	for d := 0; d < rank; d++ {
		for c := uint(0); c < s.count[d]; c++ {
			for b := uint(0); b < s.block[d]; b++ {
				idx := s.offset[d] + c*s.stride[d] + b
				if idx >= s.dims[d] {
					return nil, fmt.Errorf("hdf5: selection out of the dataspace extent (dimension %d: index %d, extent %d)", d, idx, s.dims[d])
				}
				per[d] = append(per[d], int(idx))
			}
		}
	}
	res := []int{0}
	for d := 0; d < rank; d++ {
		next := make([]int, 0, len(res)*len(per[d]))
		for _, base := range res {
			for _, i := range per[d] {
				next = append(next, base*int(s.dims[d])+i)
			}
		}
		res = next
	}
	return res, nil
}

type PropList struct {
	deflate bool
	chunk   []uint
}

func NewPropList(cls PropType) (*PropList, error) { return &PropList{}, nil }
func (p *PropList) Close() error                  { return nil }
func (p *PropList) SetDeflate(level int) error    { p.deflate = true; return nil }
func (p *PropList) SetChunk(dims []uint) error    { p.chunk = append([]uint(nil), dims...); return nil }

// ---------------------------------------------------------------------------
// Dataset

type Dataset struct {
	file *fileData
	n    *node
	path string
	rw   bool
}

func (g *CommonFG) CreateDataset(name string, dt *Datatype, sp *Dataspace) (*Dataset, error) {
	return g.CreateDatasetWith(name, dt, sp, &PropList{})
}

func (g *CommonFG) CreateDatasetWith(name string, dt *Datatype, sp *Dataspace, dcpl *PropList) (*Dataset, error) {
	enter("H5Dcreate", true, g.file.name, g.path+"/"+name, nil)
	if !g.rw {
		return nil, errors.New("hdf5: file is read-only")
	}
	parts := split(name)
	if len(parts) != 1 {
		return nil, errors.New("hdf5: CreateDataset: intermediate groups are not created")
	}
	if _, ok := g.n.children[parts[0]]; ok {
		return nil, fmt.Errorf("hdf5: name %q already exists", name)
	}
	if dcpl != nil && dcpl.deflate && dcpl.chunk == nil {
		return nil, errors.New("hdf5: H5Dcreate: filters require a chunked layout")
	}
	n := 1
	for _, d := range sp.dims {
		n *= int(d)
	}
	ds := &node{typ: dt.t, dims: append([]uint(nil), sp.dims...), data: make([]byte, n*int(dt.t.size))}
	g.n.children[parts[0]] = ds
	g.n.order = append(g.n.order, parts[0])
	return &Dataset{file: g.file, n: ds, path: g.path + "/" + parts[0], rw: true}, nil
}

func (g *CommonFG) OpenDataset(name string) (*Dataset, error) {
	enter("H5Dopen", false, g.file.name, g.path+"/"+name, nil)
	n := g.n.lookup(name)
	if n == nil || n.group {
		return nil, fmt.Errorf("hdf5: dataset %q not found", name)
	}
	return &Dataset{file: g.file, n: n, path: g.path + "/" + name, rw: g.rw}, nil
}

func (s *Dataset) Close() error { return nil }

func (s *Dataset) Space() *Dataspace {
	enter("H5Dget_space", false, s.file.name, s.path, nil)
	return &Dataspace{dims: append([]uint(nil), s.n.dims...)}
}

func (s *Dataset) Datatype() (*Datatype, error) {
	enter("H5Dget_type", false, s.file.name, s.path, nil)
	return &Datatype{s.n.typ}, nil
}

// buffer returns the raw memory behind data exactly as the binding derives it
// (pointer to slice / array / scalar) together with its size in bytes.
func buffer(data interface{}) ([]byte, error) {
	v := reflect.Indirect(reflect.ValueOf(data))
	switch v.Kind() {
	case reflect.Slice:
		n := v.Len() * int(v.Type().Elem().Size())
		if n == 0 {
			return nil, nil
		}
		return unsafe.Slice((*byte)(unsafe.Pointer(v.Pointer())), n), nil
	case reflect.Array:
		n := int(v.Type().Size())
		return unsafe.Slice((*byte)(unsafe.Pointer(v.UnsafeAddr())), n), nil
	default:
		if !v.CanAddr() {
			return nil, errors.New("hdf5: value is not addressable")
		}
		return unsafe.Slice((*byte)(unsafe.Pointer(v.UnsafeAddr())), int(v.Type().Size())), nil
	}
}

func (s *Dataset) transfer(data interface{}, memspace, filespace *Dataspace, write bool) error {
	buf, err := buffer(data)
	if err != nil {
		return err
	}
	fs := filespace
	if fs == nil {
		fs = &Dataspace{dims: s.n.dims}
	}
	if len(fs.dims) != len(s.n.dims) {
		return errors.New("hdf5: file dataspace rank does not match the dataset")
	}
	for i := range fs.dims {
		if fs.dims[i] != s.n.dims[i] {
			return errors.New("hdf5: file dataspace extent does not match the dataset")
		}
	}
	sel, err := fs.selection()
	if err != nil {
		return err
	}
	memN := len(sel)
	if memspace != nil {
		msel, err := memspace.selection()
		if err != nil {
			return err
		}
		memN = len(msel)
		// memory selections other than "all of a simple dataspace" are not used by openwater-core
		if memspace.selected {
			return errors.New("hdf5 stand-in: hyperslab selections on the memory dataspace are not modelled")
		}
	}
	if memN != len(sel) {
		return fmt.Errorf("hdf5: src and dest dataspaces have different number of elements selected (%d vs %d)", memN, len(sel))
	}
	es := int(s.n.typ.size)
	if len(buf) < memN*es {
		// libhdf5 would read/write memN*es bytes at the buffer address regardless: a memory overrun
		return fmt.Errorf("hdf5 stand-in: DETECTED-OVERRUN transfer of %d elements of %d bytes through a %d-byte buffer", memN, es, len(buf))
	}
	for k, off := range sel {
		if write {
			copy(s.n.data[off*es:(off+1)*es], buf[k*es:(k+1)*es])
		} else {
			copy(buf[k*es:(k+1)*es], s.n.data[off*es:(off+1)*es])
		}
	}
	return nil
}

func (s *Dataset) ReadSubset(data interface{}, memspace, filespace *Dataspace) error {
	enter("H5Dread", false, s.file.name, s.path, filespace)
	return s.transfer(data, memspace, filespace, false)
}

func (s *Dataset) Read(data interface{}) error { return s.ReadSubset(data, nil, nil) }

func (s *Dataset) WriteSubset(data interface{}, memspace, filespace *Dataspace) error {
	enter("H5Dwrite", true, s.file.name, s.path, filespace)
	if !s.rw {
		return errors.New("hdf5: file is read-only")
	}
	return s.transfer(data, memspace, filespace, true)
}

func (s *Dataset) Write(data interface{}) error { return s.WriteSubset(data, nil, nil) }

// ---------------------------------------------------------------------------
// helpers for the checks (not part of the binding's API)

// FakeStringDataset creates a 1-D fixed-length string dataset (what LoadText reads).
func FakeStringDataset(filename, path string, strs []string) error {
	return FakeStringDatasetWidth(filename, path, strs, 0)
}

// FakeStringDatasetWidth stores fixed-width strings the way h5py writes an 'S<width>' array: NUL-padded, and
// without any terminator when a string fills the width.  width 0 = longest string + 1.
func FakeStringDatasetWidth(filename, path string, strs []string, width int) error {
	fd := live(filename)
	if fd == nil {
		return errors.New("no such file")
	}
	parts := split(path)
	cur := fd.root
	for _, p := range parts[:len(parts)-1] {
		nx := cur.children[p]
		if nx == nil {
			nx = newGroup()
			cur.children[p] = nx
			cur.order = append(cur.order, p)
		}
		cur = nx
	}
	maxLen := 1
	for _, s := range strs {
		if len(s)+1 > maxLen {
			maxLen = len(s) + 1
		}
	}
	if width > 0 {
		if width < maxLen-1 {
			return errors.New("width shorter than the longest string")
		}
		maxLen = width
	}
	ds := &node{typ: dtype{classString, uint(maxLen), false}, dims: []uint{uint(len(strs))}, data: make([]byte, maxLen*len(strs))}
	for i, s := range strs {
		copy(ds.data[i*maxLen:], s)
	}
	name := parts[len(parts)-1]
	if _, ok := cur.children[name]; !ok {
		cur.order = append(cur.order, name)
	}
	cur.children[name] = ds
	return nil
}

// FakeEnsureGroup creates (if needed) the group path.
func FakeEnsureGroup(filename, path string) error {
	fd := live(filename)
	if fd == nil {
		return errors.New("no such file")
	}
	cur := fd.root
	for _, p := range split(path) {
		nx := cur.children[p]
		if nx == nil {
			nx = newGroup()
			cur.children[p] = nx
			cur.order = append(cur.order, p)
		}
		cur = nx
	}
	return nil
}

// FakeRaw returns the dataset's element size, dims and a copy of its raw bytes.
func FakeRaw(filename, path string) (size int, dims []uint, raw []byte, ok bool) {
	fd := live(filename)
	if fd == nil {
		return 0, nil, nil, false
	}
	n := fd.root.lookup(path)
	if n == nil || n.group {
		return 0, nil, nil, false
	}
	return int(n.typ.size), append([]uint(nil), n.dims...), append([]byte(nil), n.data...), true
}

// FakeFloat64s decodes a float64 dataset.
func FakeFloat64s(filename, path string) ([]float64, []uint, bool) {
	size, dims, raw, ok := FakeRaw(filename, path)
	if !ok || size != 8 {
		return nil, nil, false
	}
	r := make([]float64, len(raw)/8)
	for i := range r {
		r[i] = *(*float64)(unsafe.Pointer(&raw[8*i]))
	}
	return r, dims, true
}

// FakeFill overwrites every byte of a dataset (to make unwritten regions visible).
func FakeFill(filename, path string, b byte) bool {
	fd := live(filename)
	if fd == nil {
		return false
	}
	n := fd.root.lookup(path)
	if n == nil || n.group {
		return false
	}
	for i := range n.data {
		n.data[i] = b
	}
	return true
}

// FakeList lists every object path of a file ("/a/b" groups end with "/").
func FakeList(filename string) []string {
	fd := live(filename)
	if fd == nil {
		return nil
	}
	var out []string
	var walk func(p string, n *node)
	walk = func(p string, n *node) {
		for _, name := range n.order {
			c := n.children[name]
			if c.group {
				out = append(out, p+name+"/")
				walk(p+name+"/", c)
			} else {
				out = append(out, p+name)
			}
		}
	}
	walk("/", fd.root)
	return out
}

var _ = binary.LittleEndian

// FakePut creates (or replaces) a dataset with the given element kind and raw values,
// creating intermediate groups. kind: "f64", "i32", "u32".
func FakePut(filename, path, kind string, dims []int, vals []float64) error {
	fd := live(filename)
	if fd == nil {
		return errors.New("no such file")
	}
	parts := split(path)
	if err := FakeEnsureGroup(filename, strings.Join(parts[:len(parts)-1], "/")); err != nil {
		return err
	}
	cur := fd.root.lookup(strings.Join(parts[:len(parts)-1], "/"))
	var t dtype
	switch kind {
	case "f64":
		t = dtype{classFloat, 8, true}
	case "i32":
		t = dtype{classInteger, 4, true}
	case "u32":
		t = dtype{classInteger, 4, false}
	default:
		return errors.New("kind")
	}
	n := 1
	ud := make([]uint, len(dims))
	for i, d := range dims {
		n *= d
		ud[i] = uint(d)
	}
	if n != len(vals) {
		return fmt.Errorf("FakePut %s: %d values for dims %v", path, len(vals), dims)
	}
	ds := &node{typ: t, dims: ud, data: make([]byte, n*int(t.size))}
	for i, v := range vals {
		switch kind {
		case "f64":
			binary.LittleEndian.PutUint64(ds.data[8*i:], *(*uint64)(unsafe.Pointer(&v)))
		case "i32":
			binary.LittleEndian.PutUint32(ds.data[4*i:], uint32(int32(v)))
		case "u32":
			binary.LittleEndian.PutUint32(ds.data[4*i:], uint32(v))
		}
	}
	name := parts[len(parts)-1]
	if _, ok := cur.children[name]; !ok {
		cur.order = append(cur.order, name)
	}
	cur.children[name] = ds
	return nil
}

// FakeCreateFile creates an empty file without going through the hook / call log.
func FakeCreateFile(name string) error {
	if err := os.WriteFile(name, []byte("fake-hdf5 marker\n"), 0o644); err != nil {
		return err
	}
	files[name] = &fileData{name: name, root: newGroup()}
	return nil
}
